#!/bin/bash
# verifyseed.sh <dir with patch.diff demo.rs> <name>: clean worktree; suite+demo with patch (only demo binary may fail); demo alone without patch (must pass)
d=$1; name=$2; W=/tmp/vs-$name; rm -rf $W; git -C /repo worktree add -q --detach $W HEAD
cd $W && git apply $d/patch.diff || { echo "$name: patch does not apply"; exit 1; }
cp $d/demo.rs tests/demo_$name.rs
with=$(timeout 1500 cargo test --workspace --no-fail-fast --offline 2>&1 | grep -E '^test result|error: test failed' | awk '/test result/{s+=$4; f+=$6} /error: test failed/{e+=1; b=b" "$0} END {print "passed",s,"failed",f,"failed-binaries",e, b}')
git apply -R $d/patch.diff
without=$(timeout 900 cargo test --offline --test demo_$name 2>&1 | grep -E '^test result|error: test failed' | head -2 | tr '\n' ' ')
echo "$name | with: $with | without: $without"
cd /; git -C /repo worktree remove --force $W
