#!/bin/bash
# runs every seeded change against the check of the property it breaks, on a scratch worktree of /repo (never touches /repo itself)
# usage: seedall.sh [seed-ids...]   (default: all under seeded/)
cd "$(dirname "$0")"
seeds="$@"; [ -z "$seeds" ] && seeds=$(ls seeded)
W=$(mktemp -d /tmp/seedall-XXXX)
for s in $seeds; do
  prop=$(python3 -c "import json;print(json.load(open('seeded/$s/meta.json'))['property'])")
  rm -rf $W/r; git -C /repo worktree add -q --detach $W/r HEAD 2>/dev/null
  if ! git -C $W/r apply $(pwd)/seeded/$s/patch.diff 2>/dev/null; then echo "$s $prop PATCH-DOES-NOT-APPLY"; git -C /repo worktree remove --force $W/r; continue; fi
  out=$(VERIF_REPO=$W/r ./check $prop 2>&1 | grep -E '^VIOLATION|^INCONCLUSIVE|^OK' | head -1 | cut -c1-160)
  echo "$s $prop ${out:-NO-VERDICT}"
  git -C /repo worktree remove --force $W/r
done
git -C /repo worktree prune; rm -rf $W
