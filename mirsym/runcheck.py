#!/usr/bin/env python3
"""check <PROPERTY> [--tier quick|thorough] [--replay FILE] [--jobs N]

Decides one property of /verif/properties.jsonl on /repo's current working tree by
symbolic execution of the crate's MIR (z3), replays counterexamples natively, writes
/verif/evidence/<id>.json.  Exit 0 held / 1 VIOLATION / 2 inconclusive."""
import sys
import os
import json
import time
import shutil
import hashlib
import subprocess
import tempfile
import traceback
import multiprocessing as mp
import fcntl
import collections

HERE = os.path.dirname(os.path.abspath(__file__))
sys.path.insert(0, HERE)
VERIF = os.path.dirname(HERE)
REPO = os.environ.get('VERIF_REPO', '/repo')

import z3
import interp
import driver
import scripts as scr
import layouts
import props
from interp import Unsupported

G = {}   # globals inherited by forked workers


def log(*a):
    print(*a, file=sys.stderr, flush=True)


# ------------------------------------------------------------------ preparation
def prepare(scratch, debug_assertions=False):
    src = os.path.join(scratch, 'repo-dbg' if debug_assertions else 'repo')
    subprocess.run(['rsync', '-a', '--exclude', 'target', '--exclude', '.git', REPO + '/', src + '/'], check=True)
    env = dict(os.environ)
    env['CARGO_TARGET_DIR'] = os.path.join(scratch, 'mir-target')
    env['RUSTFLAGS'] = '--cfg cactusref_verif'
    env['CARGO_NET_OFFLINE'] = 'true'
    os.utime(os.path.join(src, 'src', 'lib.rs'))
    t = time.time()
    r = subprocess.run(['cargo', '+nightly', 'rustc', '--offline', '--lib', '--', '-Zunpretty=mir', '-Zmir-opt-level=0',
                        '-C', 'debug-assertions=%s' % ('on' if debug_assertions else 'off'), '-C', 'overflow-checks=on'],
                       cwd=src, env=env, capture_output=True, text=True)
    if r.returncode != 0 or 'fn ' not in r.stdout:
        raise Unsupported('MIR dump failed:\n' + r.stderr[-3000:])
    mir = r.stdout
    P = interp.Program(mir, src)
    shutil.rmtree(env['CARGO_TARGET_DIR'], ignore_errors=True)
    return P, mir, time.time() - t


def build_native(scratch):
    cache = os.path.join(VERIF, 'out')
    os.makedirs(cache, exist_ok=True)
    crate = os.path.join(VERIF, 'native')
    tdir = os.path.join(cache, 'native-target')
    if os.path.realpath(REPO) != '/repo':
        # a copy of the repository is being checked (VERIF_REPO): point the runner's path dependency at it
        crate = os.path.join(scratch, 'native')
        shutil.copytree(os.path.join(VERIF, 'native'), crate, ignore=shutil.ignore_patterns('target'))
        ct = open(os.path.join(crate, 'Cargo.toml')).read().replace('path = "/repo"', 'path = "%s"' % os.path.realpath(REPO))
        open(os.path.join(crate, 'Cargo.toml'), 'w').write(ct)
        tdir = os.path.join(cache, 'native-target-' + hashlib.sha256(os.path.realpath(REPO).encode()).hexdigest()[:8])
    lock = open(os.path.join(cache, 'native.lock'), 'w')
    fcntl.flock(lock, fcntl.LOCK_EX)
    try:
        env = dict(os.environ)
        env['RUSTUP_TOOLCHAIN'] = 'nightly'
        env['CARGO_NET_OFFLINE'] = 'true'
        env['CARGO_TARGET_DIR'] = tdir
        env['RUSTFLAGS'] = '--cfg cactusref_verif'
        r = subprocess.run(['cargo', 'build', '--offline', '--quiet'], cwd=crate, env=env, capture_output=True, text=True)
        if r.returncode != 0:
            raise Unsupported('native runner build failed:\n' + r.stderr[-3000:])
        dst = os.path.join(scratch, 'vrunner')
        shutil.copy2(os.path.join(tdir, 'debug', 'vrunner'), dst)
    finally:
        fcntl.flock(lock, fcntl.LOCK_UN)
    n = scr.Native(scratch, VERIF)
    n.bin = dst
    n.crate = crate
    return n


# ------------------------------------------------------------------ workers
def layout_factory(spec):
    if spec is None or spec[0] == 'none':
        return None
    if spec[0] == 'rank':
        return lambda: layouts.RankLayout(spec[1], spec[2], spec[3], spec[4])
    if spec[0] == 'fork':
        return lambda: layouts.ForkLayout()
    raise ValueError(spec)


def cvc5_decide(text, scratch_dir):
    p = os.path.join(scratch_dir, 'x-%d.smt2' % os.getpid())
    open(p, 'w').write(text)
    try:
        r = subprocess.run(['cvc5', '--lang', 'smt2', p], capture_output=True, text=True, timeout=60)
    except subprocess.TimeoutExpired:
        return 'timeout'
    out = (r.stdout + r.stderr).strip()
    if '(error' in out:
        return 'error: ' + out[:200]
    return out.split('\n')[0].strip() if out else 'empty'


def run_item(item):
    """explore every path of one work item under each of its layouts"""
    P = G['P_dbg'] if item.get('profile') == 'debug' else G['P']
    target = item['prop']
    res = dict(name=item['name'], paths=0, outcomes=collections.Counter(), queries=0, oracle_queries=0, solver_s=0.0,
               stmts=0, violations=[], error=None, bodies=set(), summaries=set(), sample=None, states=0, ops=0,
               summaries_by_layout={}, max_depth=0, max_rc_drop_depth=0, extra={})
    t0 = time.time()
    try:
        opts = dict(item.get('opts') or {})
        opts['target'] = target
        xbudget = [2]
        opts['xcheck'] = 1
        opts['xcheck_every'] = 1 + (hash(item['name']) % 3)
        for lspec in item.get('layouts') or [None]:
            lf = layout_factory(lspec)
            per_layout = []
            for sc, out in driver.explore(P, item['script'], layout_factory=lf, sym=item.get('sym', True),
                                          oracles=item['oracles'], opts=opts, max_paths=item.get('max_paths', 4000)):
                E = sc.E
                res['paths'] += 1
                res['queries'] += E.nqueries
                res['oracle_queries'] += getattr(sc, 'nqueries_oracle', 0)
                res['solver_s'] += E.solver_time
                res['stmts'] += E.nstmts
                res['bodies'] |= E.bodies_used
                res['summaries'] |= E.summaries_used
                res['states'] += max(sc.op_index + 1, 0) + 1
                res['ops'] += max(sc.op_index + 1, 0)
                res['max_depth'] = max(res['max_depth'], E.max_depth)
                res['max_rc_drop_depth'] = max(res['max_rc_drop_depth'], E.max_rc_drop_depth)
                for (text, expect) in sc.xchecks:
                    if xbudget[0] <= 0:
                        break
                    xbudget[0] -= 1
                    got = cvc5_decide(text, G.get('scratch', '/tmp'))
                    res['extra']['cvc5_cross_checks'] = res['extra'].get('cvc5_cross_checks', 0) + 1
                    if got != expect:
                        res['error'] = 'solver disagreement: z3 says %s, cvc5 says %s on an oracle query of %s' % (expect, got, item['name'])
                ts = res['extra'].setdefault('tracestats', {})
                nd = 0
                for t in sc.trace:
                    if t[0] == 'dtor':
                        ts['dtor'] = ts.get('dtor', 0) + 1
                        nd += 1
                    elif t[0] == 'op':
                        if nd >= 2:
                            ts['multi_destroy_ops'] = ts.get('multi_destroy_ops', 0) + 1
                        nd = 0
                    elif t[0] == 'ret':
                        key = '%s:%s' % (t[1], t[2]) if t[1] in ('upgrade', 'catch', 'try_unwrap', 'make_mut', 'get_mut') else t[1]
                        ts[key] = ts.get(key, 0) + 1
                    elif t[0] in ('cost', 'abort', 'uncaught-panic', 'tclone'):
                        ts[t[0]] = ts.get(t[0], 0) + 1
                if nd >= 2:
                    ts['multi_destroy_ops'] = ts.get('multi_destroy_ops', 0) + 1
                kind, exc = out
                accept = item.get('accept_props') or [target]
                if kind == 'violation' and exc.prop not in accept:
                    kind = 'foreign:' + exc.prop
                elif kind == 'violation' and exc.prop != target and item.get('relabel'):
                    exc.clause = exc.prop + ':' + exc.clause
                    exc.prop = target
                if kind == 'ub':
                    # a layout assumption (an offset taken from another instantiation applied to RcBox<T>) sends every raw-pointer
                    # API to the wrong cells: it is a violation of whichever property the item is about
                    if item.get('ub_prop', 'C02') in accept or target in ('C12', 'C13', 'C10', 'C11', 'C16', 'C05', 'C07') or getattr(exc, 'kind', '') == 'layout-assumption':
                        kind = 'violation'
                        exc = driver.Violation(item.get('ub_prop', 'C02') if (target not in ('C12', 'C13', 'C10', 'C11', 'C16', 'C09', 'C07', 'C05') and getattr(exc, 'kind', '') != 'layout-assumption') else target,
                                               'memory:' + exc.kind, exc.detail, sc.model_values(None))
                        exc.stack = getattr(out[1], 'stack', [])
                    else:
                        kind = 'foreign:ub'
                res['outcomes'][kind] += 1
                if kind == 'violation':
                    res['violations'].append(dict(prop=exc.prop, clause=exc.clause, detail=exc.detail, model=exc.model or {},
                                                  script=item['script'], layout=lspec, name=item['name'],
                                                  decisions=list(E.decisions), op_index=sc.op_index,
                                                  stack=getattr(exc, 'stack', []), trace=sc.trace, tags=item.get('tags', []),
                                                  subject=sc.subject, rec_same=dict(sc.rec_same), opts=item.get('opts'), profile=item.get('profile')))
                if item.get('collect'):
                    per_layout.append(item['collect'](sc, out, kind))
                if item.get('post_path'):
                    item['post_path'](sc, out, res)
                if res['sample'] is None and kind in ('ok', 'panic', 'abort'):
                    res['sample'] = dict(item=item['name'], layout=str(lspec), path_condition=[str(c)[:120] for c in E.pc[-4:]],
                                         trace=sc.trace[:12], outcome=kind)
            if item.get('collect'):
                res['summaries_by_layout'][str(lspec)] = per_layout
        if item.get('post_item'):
            item['post_item'](item, res)
        res['summaries_by_layout'] = {}
        if item.get('witness'):
            if not res['violations']:
                res['error'] = 'vacuity witness %s was NOT violated: the oracle cannot see what it is supposed to see' % item['name']
            res['extra']['witness_violations'] = len(res['violations'])
            res['violations'] = []
            res['outcomes'] = {('witness:' + k): v for k, v in res['outcomes'].items()}
    except Unsupported as e:
        res['error'] = 'unsupported: %s' % e
    except driver.ScriptError as e:
        res['error'] = 'script error: %s' % e
    except Exception as e:
        res['error'] = 'internal: %s\n%s' % (e, traceback.format_exc()[-2000:])
    res['wall'] = time.time() - t0
    res['bodies'] = sorted(res['bodies'])
    res['summaries'] = sorted(res['summaries'])
    res['outcomes'] = dict(res['outcomes'])
    return res


def run_item_idx(i):
    try:
        return run_item(G['items'][i])
    except Exception as e:
        return dict(name='?', error='internal: %s' % e, paths=0, outcomes={}, queries=0, oracle_queries=0, solver_s=0, stmts=0,
                    violations=[], bodies=[], summaries=[], sample=None, states=0, ops=0, wall=0, summaries_by_layout={},
                    max_depth=0, max_rc_drop_depth=0, extra={})


# ------------------------------------------------------------------ translator validation
def translator_validation(P, native, seed, n_random):
    vs = props.validation_scripts(seed, n_random)
    mism = []
    mine = {}
    for name, s in vs:
        sc, out = driver.run_path(P, s, [], None, False, set(), {'panics_ok': True, 'abort_ok': True})
        if out[0] in ('violation', 'ub'):
            mine[name] = ('model-stopped', str(out[1]))
        else:
            mine[name] = scr.normalise(sc.trace)
    ok = [(n, s) for n, s in vs if not (isinstance(mine[n], tuple) and mine[n][0] == 'model-stopped')]
    G['validation_skipped'] = len(vs) - len(ok)
    res = native.run_each(ok, seed=0)
    for name, s in ok:
        if name not in res:
            mism.append((name, 'native produced no output'))
            continue
        nt = scr.normalise(res[name]['trace'])
        if res[name].get('crashed') is not None:
            # the process was killed inside this script (abort / signal): comparable with a model run that ends in abort
            nt = nt + [['abort']]
        if mine[name] != nt:
            mism.append((name, 'model %r vs native %r' % (mine[name][-6:] if isinstance(mine[name], list) else mine[name], nt[-6:])))
    vs = ok
    return len(vs), mism


# ------------------------------------------------------------------ replay
def instrumented(cs, links=False):
    """script text for the native runner with the same observers the model adds under opts.instrument"""
    ops = []
    objs = []
    held = {}
    for op in cs['ops']:
        if links:
            # program-held strong handles by name (same rule as driver.observe_all)
            k = op['op']
            if k in ('new', 'clone', 'take', 'from_raw') or (k == 'upgrade' and op.get('as')):
                held[op['as']] = True
            if k in ('drop', 'store', 'into_raw', 'try_unwrap'):
                held.pop(op['h'], None)
        ops.append(op)
        if op['op'] == 'new':
            objs.append(op['obj'])
            ops.append({'op': 'downgrade', 'h': op['as'], 'as': '__w%d' % op['obj']})
        else:
            for i in sorted(objs):
                ops.append({'op': 'w_strong_count', 'w': '__w%d' % i})
                ops.append({'op': 'w_weak_count', 'w': '__w%d' % i})
            if links:
                for name in sorted(held):
                    ops.append({'op': 'links', 'h': name})
    return {'ops': ops}


def concretise(script, model):
    def fix(ops):
        out = []
        for op in ops:
            op = dict(op)
            if op['op'] in ('extras', 'wextras') and isinstance(op['n'], str):
                op['n'] = int(model.get(op['n'], 0))
            if 'do' in op:
                op['do'] = fix(op['do'])
            out.append(op)
        return out
    return {'ops': fix(script['ops'])}


def replay_lemma(P, v):
    """unit lemmas quantify over raw counter values that the public API cannot construct: the counterexample is
    replayed by executing the function's MIR concretely with the model's values"""
    def fix(ops):
        out = []
        for op in ops:
            op = dict(op)
            if op['op'] in ('set_strong', 'set_weak') and isinstance(op['v'], str):
                op['v'] = int(v['model'].get(op['v'], 0))
            out.append(op)
        return out
    cs = {'ops': fix(concretise(v['script'], v['model'])['ops'])}
    sc, out = driver.run_path(P, cs, [], None, False, set(), {'panics_ok': True, 'abort_ok': True, 'target': v['prop']})
    return True, 'unit level: concrete execution of the MIR with the model values ends in %s (%s); not replayable through the public API' % (out[0], v['detail'][:80]), cs


def replay_violation(P, native, v, scratch):
    """returns (confirmed: bool, how: str, replay dict)"""
    if 'lemma' in (v.get('tags') or []):
        return replay_lemma(P, v)
    if v.get('profile') == 'debug' and G.get('P_dbg') is not None:
        P = G['P_dbg']       # the counterexample was found on the MIR of the debug profile (the native runner is a dev build)
    cs = concretise(v['script'], v['model'])
    for op in cs['ops']:
        if op['op'] in ('extras', 'wextras') and op['n'] > 100000:
            return False, 'counterexample needs %d handles: not replayed natively' % op['n'], cs
    # 1. concrete re-run in the model under the same layout
    lf = layout_factory(v['layout'])
    is_mem = v['clause'].startswith('memory:') or ':memory:' in v['clause'] or v['clause'].endswith('destructor-once')
    sc, out = driver.run_path(P, cs, [], lf, False, set(v['oracles']), dict(v.get('opts') or {}, target=v['prop'], instrument=(False if is_mem else ('links' if v['prop'] == 'C08' else True))))
    model_trace = scr.normalise(sc.trace)
    model_out = out[0]
    ncs = cs if is_mem else instrumented(cs, links=(v['prop'] == 'C08'))
    # a latent state violation (a table naming a released block, a wrong counter) may surface natively only as a
    # memory error later in the same history: run the model once more with the monitors only
    latent_mem = False
    if not is_mem:
        sc2, out2 = driver.run_path(P, cs, [], lf, False, set(), dict(v.get('opts') or {}, target=v['prop'], panics_ok=True, abort_ok=True))
        latent_mem = out2[0] == 'ub'
    # 2. native, plain + perturbed layouts
    how = []
    confirmed = False
    for seed in [0, 1, 2, 3, 5, 8, 13, 21]:
        try:
            res, rc, err = native.run([('replay', ncs)], seed=seed, timeout=60, eager=True)
        except subprocess.TimeoutExpired:
            how.append('native seed %d: timeout' % seed)
            continue
        nt = scr.normalise(res.get('replay', {}).get('trace', []))
        bad = [t for t in nt if t[0] == 'raw' and 'CANARY-BAD' in t[1]]
        crashed = rc != 0 or 'replay' not in res or res['replay'].get('end') is None
        if is_mem or latent_mem:
            if crashed or bad or (['uncaught-panic'] in nt and ['uncaught-panic'] not in model_trace):
                confirmed = True
                how.append('native seed %d: %s%s' % (seed, 'crash rc=%s' % rc if crashed else ('canary' if bad else 'panic'),
                                                      ' (the model predicts a memory error later in this history)' if latent_mem else ''))
                break
        if not is_mem:
            k = len(model_trace)
            if v['clause'].endswith('unexpected-abort') and crashed and model_trace and model_trace[-1] == ['abort'] and nt[:k - 1] == model_trace[:-1] and len(nt) <= k:
                confirmed = True
                how.append('native seed %d: the process is killed (rc=%s) at the same point of the script at which the model predicts the abort' % (seed, rc))
                break
            if k > 0 and nt[:k] == model_trace and model_out in ('violation', 'ub'):
                confirmed = True
                how.append('native seed %d: trace equals the model trace up to the violating observation' % seed)
                break
            if model_out in ('violation', 'ub') and v['clause'].endswith('library-panic') and ['uncaught-panic'] in nt:
                confirmed = True
                how.append('native seed %d: panic reproduced' % seed)
                break
        how.append('native seed %d: not reproduced (rc=%s)' % (seed, rc))
    if not confirmed and latent_mem:
        ok, msg = miri_replay(cs, scratch)
        how.append(msg)
        confirmed = ok
    if not confirmed and not is_mem:
        # the observers added by the instrumentation are Weak handles and can themselves change the behaviour
        # (e.g. "no Weak outside the group"): second attempt with the script exactly as the solver produced it
        sc3, out3 = driver.run_path(P, cs, [], lf, False, set(v['oracles']), dict(v.get('opts') or {}, target=v['prop'], instrument=False))
        mt = scr.normalise(sc3.trace)
        if out3[0] in ('violation', 'ub') and len(mt) > 0:
            for seed in [0, 1, 2, 3]:
                try:
                    res, rc, err = native.run([('replay', cs)], seed=seed, timeout=60, eager=True)
                except subprocess.TimeoutExpired:
                    continue
                nt = scr.normalise(res.get('replay', {}).get('trace', []))
                if nt[:len(mt)] == mt:
                    confirmed = True
                    how.append('native seed %d (uninstrumented script): trace equals the model trace up to the violating observation' % seed)
                    break
    if not confirmed and is_mem:
        ok, msg = miri_replay(cs, scratch)
        how.append(msg)
        confirmed = ok
    return confirmed, '; '.join(how[-3:]), cs


def miri_replay(cs, scratch):
    path = os.path.join(scratch, 'miri-replay.txt')
    with open(path, 'w') as f:
        f.write(scr.to_text(cs, 'replay'))
    env = dict(os.environ)
    env['MIRIFLAGS'] = '-Zmiri-disable-isolation -Zmiri-permissive-provenance -Zmiri-ignore-leaks'
    env['CARGO_NET_OFFLINE'] = 'true'
    env['CARGO_TARGET_DIR'] = os.path.join(VERIF, 'out', 'miri-target')
    env['RUSTFLAGS'] = '--cfg cactusref_verif'
    try:
        r = subprocess.run(['cargo', '+nightly', 'miri', 'run', '--offline', '--quiet', '--', path, '0'],
                           cwd=getattr(G.get('native'), 'crate', os.path.join(VERIF, 'native')), env=env, capture_output=True, text=True, timeout=600)
    except subprocess.TimeoutExpired:
        return False, 'miri: timeout'
    if 'Undefined Behavior' in r.stderr:
        line = [l for l in r.stderr.split('\n') if 'Undefined Behavior' in l][0]
        return True, 'miri: ' + line.strip()[:200]
    return False, 'miri: no UB reported (rc=%d)' % r.returncode


# ------------------------------------------------------------------ known findings
def load_known():
    p = os.path.join(VERIF, 'known_findings.json')
    if not os.path.exists(p):
        return []
    return json.load(open(p)).get('findings', [])


# ------------------------------------------------------------------ main
def main():
    import argparse
    ap = argparse.ArgumentParser()
    ap.add_argument('prop')
    ap.add_argument('--tier', default=os.environ.get('VERIF_TIER', 'quick'))
    ap.add_argument('--replay')
    ap.add_argument('--jobs', type=int, default=int(os.environ.get('VERIF_JOBS', '16')))
    ap.add_argument('--limit', type=int, default=0, help='debug: only the first N items')
    ap.add_argument('--only', default='', help='debug: only items whose name contains this')
    a = ap.parse_args()
    prop = a.prop
    tier = a.tier if a.tier in ('quick', 'thorough') else 'quick'
    seed = int(os.environ.get('VERIF_SEED', '0') or 0)
    t_start = time.time()
    scratch = tempfile.mkdtemp(prefix='verif-%s-' % prop)
    status = 2
    try:
        status = run(prop, tier, seed, a, scratch, t_start)
    except Unsupported as e:
        print('INCONCLUSIVE property=%s reason=%s' % (prop, str(e)[:500]))
        status = 2
    finally:
        shutil.rmtree(scratch, ignore_errors=True)
    sys.exit(status)


def run(prop, tier, seed, a, scratch, t_start):
    if prop not in props.PROPS:
        print('unknown property %s' % prop)
        return 2
    spec = props.PROPS[prop]
    P, mir, t_mir = prepare(scratch)
    G['P'] = P
    G['scratch'] = scratch
    native = build_native(scratch)
    G['native'] = native
    log('[%s] MIR dump+parse %.1fs, %d bodies; native runner built' % (prop, t_mir, len(P.bodies)))

    if a.replay:
        rp = json.load(open(a.replay))
        v = rp['violation']
        ok, how, cs = replay_violation(P, native, v, scratch)
        print('replay %s: %s (%s)' % (a.replay, 'REPRODUCED' if ok else 'not reproduced', how))
        return 1 if ok else 0

    # translator validation (every run)
    nval, mism = translator_validation(P, native, seed, 24 if tier == 'quick' else 120)
    if mism:
        for m in mism[:5]:
            print('TRANSLATOR-VALIDATION MISMATCH %s: %s' % m)
        print('INCONCLUSIVE property=%s reason=model and native runner disagree on %d validation script(s)' % (prop, len(mism)))
        write_evidence(prop, tier, seed, spec, [], nval, t_start, P, inconclusive='translator validation mismatch', extra={})
        return 2
    log('[%s] translator validation: %d scripts agree' % (prop, nval))

    items = spec['items'](tier, seed, P)
    if any(it.get('profile') == 'debug' for it in items):
        # some families are also run on the MIR of the debug profile (debug assertions on: the profile the test suite uses)
        G['P_dbg'], _, t_dbg = prepare(scratch, debug_assertions=True)
        log('[%s] debug-profile MIR dump+parse %.1fs' % (prop, t_dbg))
    if a.only:
        items = [i for i in items if a.only in i['name']]
    if a.limit:
        items = items[:a.limit]
    for it in items:
        it.setdefault('prop', prop)
    G['items'] = items
    log('[%s] %d work items, tier %s' % (prop, len(items), tier))
    results = []
    budget = spec.get('budget', {}).get(tier, 2400 if tier == 'quick' else 6 * 3600)
    t0 = time.time()
    with mp.get_context('fork').Pool(min(a.jobs, max(1, len(items)))) as pool:
        for k, r in enumerate(pool.imap_unordered(run_item_idx, range(len(items)), chunksize=1)):
            results.append(r)
            if time.time() - t0 > budget:
                pool.terminate()
                print('INCONCLUSIVE property=%s reason=time budget of %ds exhausted after %d/%d items' % (prop, budget, len(results), len(items)))
                write_evidence(prop, tier, seed, spec, results, nval, t_start, P, inconclusive='budget exhausted', extra={})
                return 2
    errors = [r for r in results if r.get('error')]
    extra = {}
    extra['vacuity_witnesses'] = sum(1 for r_ in results if r_.get('extra', {}).get('witness_violations'))
    tstats = collections.Counter()
    for r_ in results:
        tstats.update(r_.get('extra', {}).get('tracestats', {}))
    extra['reached'] = dict(tstats)
    extra['cvc5_cross_checks'] = sum(r_.get('extra', {}).get('cvc5_cross_checks', 0) for r_ in results)
    if spec.get('finish'):
        extra = spec['finish'](tier, seed, P, native, results, scratch) or {}
    viols = [v for r in results for v in r['violations']] + list(extra.pop('violations', []))
    if errors:
        for r in errors[:5]:
            print('ENGINE-ERROR item=%s %s' % (r['name'], r['error'][:800]))
        print('INCONCLUSIVE property=%s reason=%d work item(s) hit an encoder limit or internal error' % (prop, len(errors)))
        write_evidence(prop, tier, seed, spec, results, nval, t_start, P, inconclusive='engine errors', extra=extra)
        return 2

    # vacuity: the family must have reached its oracle
    vac = spec.get('vacuity')
    if vac and not a.only and not a.limit and not viols:
        # (with counterexamples at hand the run is not vacuous: they are replayed and reported below; a code change can
        # make the oracle's target unreachable exactly by violating the property)
        msg = vac(results, extra)
        if not msg and not viols:
            tot = sum(r_['paths'] for r_ in results)
            foreign = sum(v_ for r_ in results for k_, v_ in r_.get('outcomes', {}).items() if k_.startswith('foreign'))
            if tot and foreign > 0.25 * tot:
                msg = '%d of %d paths were cut short by an oracle or monitor that belongs to another property' % (foreign, tot)
        if msg:
            print('INCONCLUSIVE property=%s reason=vacuity witness failed: %s' % (prop, msg))
            write_evidence(prop, tier, seed, spec, results, nval, t_start, P, inconclusive='vacuous: ' + msg, extra=extra)
            return 2

    # group violations by classified cause; replay one representative per cause
    known = load_known()
    groups = collections.OrderedDict()
    for v in viols:
        v['oracles'] = sorted(spec.get('replay_oracles', [prop]))
        cause = props.classify(v)
        v['cause'] = cause
        groups.setdefault((v['prop'], cause), []).append(v)
    new_violation = None
    known_hits = []
    unconfirmed = []
    os.makedirs(os.path.join(VERIF, 'out', 'replays'), exist_ok=True)
    replays_attempted = 0
    replays_confirmed = 0
    for (vp, cause), vs in groups.items():
        vs.sort(key=lambda v: ('lemma' in (v.get('tags') or []), len(v['script']['ops']), sum(v['model'].values()) if v['model'] else 0))
        kf = [k for k in known if (k['property'] == vp or vp in k.get('also_seen_by', [])) and k['cause'] == cause and not k.get('fixed')]
        rep = vs[0]
        if rep.get('confirmed_by'):
            ok, how, cs = True, rep['confirmed_by'], rep.get('concrete', rep['script'])
        elif spec.get('custom_replay'):
            ok, how, cs = spec['custom_replay'](P, native, rep, scratch)
        else:
            ok, how, cs = replay_violation(P, native, rep, scratch)
        replays_attempted += 1
        if not ok and len(vs) > 1:
            for alt in vs[1:4]:
                ok, how, cs = replay_violation(P, native, alt, scratch)
                replays_attempted += 1
                if ok:
                    rep = alt
                    break
        if ok:
            replays_confirmed += 1
        dig = hashlib.sha256(json.dumps([vp, cause, cs], sort_keys=True).encode()).hexdigest()[:10]
        path = os.path.join(VERIF, 'out', 'replays', '%s-%s.json' % (vp, dig))
        json.dump(dict(property=vp, cause=cause, clause=rep['clause'], detail=rep['detail'], model=rep['model'],
                       concrete_script=cs, script_text=(scr.to_text(cs, 'replay') if 'lemma' not in (rep.get('tags') or []) else json.dumps(cs)), confirmation=how, count=len(vs),
                       violation=dict(prop=vp, clause=rep['clause'], script=rep['script'], model=rep['model'],
                                      layout=rep['layout'], oracles=rep['oracles'], opts=rep.get('opts'), profile=rep.get('profile'))),
                  open(path, 'w'), indent=1, default=str)
        if kf:
            known_hits.append((vp, cause, kf[0], len(vs), ok))
            continue
        if ok:
            if new_violation is None:
                new_violation = (vp, cause, path, rep)
        else:
            unconfirmed.append((vp, cause, path, rep, how))

    for (vp, cause, k, n, ok) in known_hits:
        print('KNOWN-FINDING: property=%s %s [cause=%s, %d counterexample path(s)%s]' % (vp, k['what'], cause, n, '' if ok else ', replay not reproduced this run'))
    ev_extra = dict(extra)
    ev_extra.update(replays_attempted=replays_attempted, replays_confirmed=replays_confirmed,
                    known_findings_matched=[dict(property=vp, cause=c, paths=n) for (vp, c, k, n, ok) in known_hits])
    if new_violation:
        vp, cause, path, rep = new_violation
        write_evidence(prop, tier, seed, spec, results, nval, t_start, P, violations=len(groups) - len(known_hits), extra=ev_extra)
        print('counterexample: %s -- %s (cause=%s; model=%s)' % (rep['name'], rep['detail'], cause, rep['model']))
        print('VIOLATION property=%s replay=%s' % (vp, path))
        return 1
    if unconfirmed:
        vp, cause, path, rep, how = unconfirmed[0]
        print('counterexample found by the solver did not reproduce natively: %s -- %s (%s)' % (rep['name'], rep['detail'], how))
        print('INCONCLUSIVE property=%s reason=unreproduced counterexample (encoding suspect), see %s' % (prop, path))
        write_evidence(prop, tier, seed, spec, results, nval, t_start, P, inconclusive='unreproduced counterexample', extra=ev_extra)
        return 2
    write_evidence(prop, tier, seed, spec, results, nval, t_start, P, violations=0, extra=ev_extra)
    tot = sum(r['paths'] for r in results)
    print('OK property=%s tier=%s items=%d paths=%d queries=%d wall=%.0fs' % (prop, tier, len(results), tot,
          sum(r['queries'] for r in results), time.time() - t_start))
    return 0


def write_evidence(prop, tier, seed, spec, results, nval, t_start, P, violations=0, inconclusive=None, extra=None):
    os.makedirs(os.path.join(VERIF, 'evidence'), exist_ok=True)
    bodies = sorted(set(b for r in results for b in r.get('bodies', [])))
    summ = sorted(set(b for r in results for b in r.get('summaries', [])))
    outcomes = collections.Counter()
    for r in results:
        outcomes.update(r.get('outcomes', {}))
    samples = [r['sample'] for r in results if r.get('sample')][:3]
    if not samples:
        samples = [dict(note='no completed path', items=[r['name'] for r in results[:3]])]
    cov = dict(
        states=max(1, sum(r.get('states', 0) for r in results)),
        transitions=max(1, sum(r.get('ops', 0) for r in results)),
        traces_validated_against_impl=nval,
        samples=samples,
        explanation='states = symbolic states at script-operation boundaries at which the oracles were evaluated (summed over all '
                    'explored paths); transitions = script operations executed symbolically over the MIR; every path is one '
                    'solver-feasible combination of branch outcomes of the crate\'s MIR under the stated bounds',
        work_items=len(results),
        paths=sum(r.get('paths', 0) for r in results),
        path_outcomes=dict(outcomes),
        solver_queries=sum(r.get('queries', 0) for r in results),
        oracle_queries=sum(r.get('oracle_queries', 0) for r in results),
        solver_seconds=round(sum(r.get('solver_s', 0) for r in results), 2),
        mir_statements_executed=sum(r.get('stmts', 0) for r in results),
        functions_encoded=[dict(name=b, digest=P.bodies[b].digest()) for b in bodies if b in P.bodies],
        summaries_used=summ,
        bounds=spec.get('bounds', {}).get(tier, spec.get('bounds', {})),
        outside_claim=spec.get('outside', []),
        exhaustive=False,
        inconclusive=inconclusive,
        profiles={'release-like (-C debug-assertions=off -C overflow-checks=on)': sum(1 for r in results if not r.get('name', '').endswith('[debug profile]')),
                  'debug (-C debug-assertions=on -C overflow-checks=on)': sum(1 for r in results if r.get('name', '').endswith('[debug profile]'))},
    )
    if extra:
        cov.update(extra)
    ev = dict(property_id=prop, tier=tier, seed=seed, level='model_checking', coverage=cov,
              assumptions=spec.get('assumptions', []) + props.COMMON_ASSUMPTIONS,
              wall_s=round(time.time() - t_start, 1), violations=violations)
    json.dump(ev, open(os.path.join(VERIF, 'evidence', '%s.json' % prop), 'w'), indent=1, default=str)


if __name__ == '__main__':
    main()
