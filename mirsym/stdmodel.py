"""Reference model of std::rc::{Rc, Weak} written from the standard library documentation.

Two counters per allocation (strong, weak incl. the implicit one), value dropped when strong reaches 0, block released
when weak reaches 0.  Counters may be z3 terms; a decision that the path condition does not settle forks the model."""
import z3
from values import *


class StdFork(Exception):
    pass


class Std:
    def __init__(self, script, check, decisions):
        """check(cond) -> bool: is `cond` satisfiable together with the implementation's path condition and the
        assumptions made so far"""
        self.script = script
        self.check = check
        self.decisions = list(decisions)
        self.dpos = 0
        self.asm = []
        self.alternatives = []
        self.objs = {}
        self.payloads = {}
        self.handles = {}
        self.trace = []
        self.ondrop = {}
        self.extras = {}
        self.wextras = {}
        self.next_pid = 1000
        self.next_obj = 500
        self.symvars = {}
        self.dtor_stack = []

    # ---- symbolic decisions
    def decide(self, cond):
        if isinstance(cond, bool):
            return cond
        cond = z3.simplify(cond)
        if z3.is_true(cond):
            return True
        if z3.is_false(cond):
            return False
        if self.dpos < len(self.decisions):
            d = self.decisions[self.dpos]
            self.dpos += 1
            self.asm.append(cond if d else z3.Not(cond))
            return bool(d)
        t = self.check(z3.And(*(self.asm + [cond])))
        f = self.check(z3.And(*(self.asm + [z3.Not(cond)])))
        if t and f:
            self.alternatives.append(self.decisions + [0])
            d = 1
        else:
            d = 1 if t else 0
        self.decisions.append(d)
        self.dpos += 1
        self.asm.append(cond if d else z3.Not(cond))
        return bool(d)

    def sym(self, name):
        if name not in self.symvars:
            self.symvars[name] = z3.BitVec(name, 64)
        return self.symvars[name]

    def obs(self, op, v):
        self.trace.append(['ret', op['op'], v])

    # ---- primitives
    def drop_strong(self, idx):
        o = self.objs[idx]
        o['strong'] = s_sub(o['strong'], 1)
        if self.decide(s_eq(o['strong'], 0)):
            self.destroy_value(o['pid'])
            o['alive'] = False
            self.drop_weak_count(idx)

    def drop_weak_count(self, idx):
        o = self.objs[idx]
        o['weak'] = s_sub(o['weak'], 1)
        if self.decide(s_eq(o['weak'], 0)):
            o['freed'] = True

    def destroy_value(self, pid):
        pl = self.payloads[pid]
        self.trace.append(['dtor', pid])
        pl['dropped'] = True
        self.dtor_stack.append(pid)
        for op in self.ondrop.get(pid, []):
            self.run_op(op)
        while pl['strong']:
            self.drop_strong(pl['strong'].pop(0))
        while pl['weak']:
            t = pl['weak'].pop(0)
            if t is not None:
                self.drop_weak_count(t)
        self.dtor_stack.pop()

    def h(self, name):
        if name.startswith('@'):
            return ('rc', self.payloads[self.dtor_stack[-1]]['strong'][int(name[1:])])
        if name.startswith('^'):
            return ('weak', self.payloads[self.dtor_stack[-1]]['weak'][int(name[1:])])
        return self.handles[name]

    def new_obj(self, idx, pid):
        self.objs[idx] = dict(strong=1, weak=1, alive=True, freed=False, pid=pid)

    def run(self):
        for op in self.script['ops']:
            self.run_op(op)
        return self.trace

    def run_op(self, op):
        k = op['op']
        H = self.handles
        if k == 'new':
            self.payloads[op['obj']] = dict(strong=[], weak=[], dropped=False)
            self.new_obj(op['obj'], op['obj'])
            H[op['as']] = ('rc', op['obj'])
        elif k in ('new_from', 'new_from_box'):
            self.payloads[op['obj']] = dict(strong=[], weak=[], dropped=False)
            self.new_obj(op['obj'], op['obj'])
            H[op['as']] = ('rc', op['obj'])
        elif k == 'hash':
            # Rc<T>: Hash forwards to T::hash exactly once and feeds nothing else to the hasher
            self.obs(op, 'thash=1,extra=0,ids=%d' % self.objs[self.h(op['h'])[1]]['pid'])
        elif k == 'fmt_display':
            self.obs(op, 'node%d:ok' % self.objs[self.h(op['h'])[1]]['pid'])
        elif k == 'fmt_debug':
            self.obs(op, 'Node(%d):ok' % self.objs[self.h(op['h'])[1]]['pid'])
        elif k == 'fmt_pointer':
            # prints the address of the value (what Deref / as_ptr give)
            self.obs(op, '<ptr:value-of-self>:ok')
        elif k == 'wfmt_debug':
            self.h(op['w'])
            self.obs(op, '(Weak):ok')
        elif k in ('eq', 'ne', 'lt', 'le', 'gt', 'ge', 'cmp', 'partial_cmp'):
            x = self.objs[self.h(op['a'])[1]]['pid']
            y = self.objs[self.h(op['b'])[1]]['pid']
            # Rc<T>'s comparison operators call T's method of the same name exactly once
            self.trace.append(['tcmp', k, x, y])
            if k in ('cmp', 'partial_cmp'):
                self.obs(op, 'Less' if x < y else ('Equal' if x == y else 'Greater'))
            else:
                self.obs(op, 'true' if {'eq': x == y, 'ne': x != y, 'lt': x < y, 'le': x <= y, 'gt': x > y, 'ge': x >= y}[k] else 'false')
        elif k == 'clone':
            _, i = self.h(op['h'])
            self.objs[i]['strong'] = s_add(self.objs[i]['strong'], 1)
            H[op['as']] = ('rc', i)
        elif k in ('drop', 'drop_via_raw'):
            _, i = H.pop(op['h'])
            self.drop_strong(i)
        elif k in ('upgrade_if', 'wdrop_if'):
            if op['w'] in H:
                self.run_op({'op': k[:-3], 'w': op['w']})
        elif k == 'drop_if':
            if op['h'] in H:
                _, i = H.pop(op['h'])
                self.drop_strong(i)
        elif k == 'drop_any':
            kind, i = H.pop(op['h'])
            if kind == 'val':
                self.destroy_value(i)
            elif kind == 'rc':
                self.drop_strong(i)
            else:
                if i is not None:
                    self.drop_weak_count(i)
        elif k == 'extras':
            _, i = self.h(op['h'])
            e = self.sym(op['n']) if isinstance(op['n'], str) else op['n']
            self.objs[i]['strong'] = s_add(self.objs[i]['strong'], e)
            self.extras[i] = s_add(self.extras.get(i, 0), e)
        elif k == 'wextras':
            _, i = self.h(op['h'])
            e = self.sym(op['n']) if isinstance(op['n'], str) else op['n']
            self.objs[i]['weak'] = s_add(self.objs[i]['weak'], e)
            self.wextras[i] = s_add(self.wextras.get(i, 0), e)
        elif k == 'drop_extra':
            i = op['obj']
            self.asm.append(z3.UGT(bv(self.extras[i]), 0))
            self.extras[i] = s_sub(self.extras[i], 1)
            self.drop_strong(i)
        elif k == 'drop_wextra':
            i = op['obj']
            self.asm.append(z3.UGT(bv(self.wextras[i]), 0))
            self.wextras[i] = s_sub(self.wextras[i], 1)
            self.drop_weak_count(i)
        elif k == 'store':
            _, own = self.h(op['via'])
            _, i = H.pop(op['h'])
            self.payloads[self.objs[own]['pid']]['strong'].append(i)
        elif k == 'take':
            _, own = self.h(op['via'])
            i = self.payloads[self.objs[own]['pid']]['strong'].pop(op['slot'])
            H[op['as']] = ('rc', i)
        elif k == 'store_weak':
            _, own = self.h(op['via'])
            _, i = H.pop(op['w'])
            self.payloads[self.objs[own]['pid']]['weak'].append(i)
        elif k == 'take_weak':
            _, own = self.h(op['via'])
            i = self.payloads[self.objs[own]['pid']]['weak'].pop(op['slot'])
            H[op['as']] = ('weak', i)
        elif k in ('self_take', 'self_take_weak'):
            pl = self.payloads[self.dtor_stack[-1]]
            i = pl['strong' if k == 'self_take' else 'weak'].pop(op['slot'])
            H[op['as']] = ('rc' if k == 'self_take' else 'weak', i)
        elif k == 'downgrade':
            _, i = self.h(op['h'])
            self.objs[i]['weak'] = s_add(self.objs[i]['weak'], 1)
            H[op['as']] = ('weak', i)
        elif k == 'weak_new':
            H[op['as']] = ('weak', None)
        elif k == 'upgrade':
            _, i = self.h(op['w'])
            if i is None or self.decide(s_eq(self.objs[i]['strong'], 0)):
                self.obs(op, 'none')
            else:
                self.objs[i]['strong'] = s_add(self.objs[i]['strong'], 1)
                self.obs(op, 'some')
                if op.get('as'):
                    H[op['as']] = ('rc', i)
                else:
                    self.drop_strong(i)
        elif k == 'wclone':
            _, i = self.h(op['w'])
            if i is not None:
                self.objs[i]['weak'] = s_add(self.objs[i]['weak'], 1)
            H[op['as']] = ('weak', i)
        elif k == 'wdrop':
            _, i = H.pop(op['w'])
            if i is not None:
                self.drop_weak_count(i)
        elif k == 'strong_count':
            _, i = self.h(op['h'])
            self.obs(op, self.objs[i]['strong'])
        elif k == 'weak_count':
            _, i = self.h(op['h'])
            self.obs(op, s_sub(self.objs[i]['weak'], 1))
        elif k == 'w_strong_count':
            _, i = self.h(op['w'])
            self.obs(op, 0 if i is None else self.objs[i]['strong'])
        elif k == 'w_weak_count':
            _, i = self.h(op['w'])
            if i is None:
                self.obs(op, 0)
            elif self.decide(s_not(s_eq(self.objs[i]['strong'], 0))):
                self.obs(op, s_sub(self.objs[i]['weak'], 1))
            else:
                self.obs(op, 0)
        elif k == 'ptr_eq':
            self.obs(op, self.h(op['a'])[1] == self.h(op['b'])[1])
        elif k == 'w_ptr_eq':
            self.obs(op, self.h(op['a'])[1] == self.h(op['b'])[1])
        elif k == 'deref':
            _, i = self.h(op['h'])
            self.obs(op, self.objs[i]['pid'])
        elif k == 'try_unwrap':
            _, i = H.pop(op['h'])
            o = self.objs[i]
            if self.decide(s_eq(o['strong'], 1)):
                self.obs(op, 'ok')
                o['strong'] = 0
                o['alive'] = False
                H[op['as']] = ('val', o['pid'])
                self.drop_weak_count(i)
            else:
                self.obs(op, 'err')
                H[op['as']] = ('rc', i)
        elif k == 'drop_value':
            _, pid = H.pop(op['v'])
            self.destroy_value(pid)
        elif k == 'get_mut':
            _, i = self.h(op['h'])
            o = self.objs[i]
            if self.decide(z3.And(bv(o['weak']) == 1, bv(o['strong']) == 1) if (is_sym(o['weak']) or is_sym(o['strong'])) else (o['weak'] == 1 and o['strong'] == 1)):
                self.obs(op, 'some')
                self.obs(op, o['pid'])
            else:
                self.obs(op, 'none')
        elif k == 'make_mut':
            kind, i = self.h(op['h'])
            o = self.objs[i]
            if self.decide(s_not(s_eq(o['strong'], 1))):
                # clone the value into a fresh allocation, then release the old handle
                pl = self.payloads[o['pid']]
                self.trace.append(['tclone', o['pid']])
                npid = self.next_pid
                self.next_pid += 1
                unl = getattr(self, 'clone_unlinked', False)
                self.payloads[npid] = dict(strong=[] if unl else list(pl['strong']), weak=[] if unl else list(pl['weak']), dropped=False)
                for t in ([] if unl else pl['strong']):
                    self.objs[t]['strong'] = s_add(self.objs[t]['strong'], 1)
                for t in ([] if unl else pl['weak']):
                    if t is not None:
                        self.objs[t]['weak'] = s_add(self.objs[t]['weak'], 1)
                ni = self.next_obj
                self.next_obj += 1
                self.new_obj(ni, npid)
                self.handles[op['h']] = ('rc', ni)
                self.drop_strong(i)
                self.obs(op, 'cloned')
            elif self.decide(s_not(s_eq(o['weak'], 1))):
                ni = self.next_obj
                self.next_obj += 1
                self.new_obj(ni, o['pid'])
                o['strong'] = 0
                o['alive'] = False
                o['weak'] = s_sub(o['weak'], 1)
                self.handles[op['h']] = ('rc', ni)
                self.obs(op, 'moved')
            else:
                self.obs(op, 'inplace')
        elif k == 'into_raw':
            _, i = H.pop(op['h'])
            H[op['as']] = ('raw', i)
        elif k == 'as_ptr':
            _, i = self.h(op['h'])
            H[op['as']] = ('raw', i)
        elif k == 'from_raw':
            _, i = H.pop(op['r'])
            H[op['as']] = ('rc', i)
        elif k == 'inc_strong':
            _, i = self.h(op['r'])
            self.objs[i]['strong'] = s_add(self.objs[i]['strong'], 1)
        elif k == 'dec_strong':
            _, i = self.h(op['r'])
            self.drop_strong(i)
        elif k == 'w_into_raw':
            _, i = H.pop(op['w'])
            H[op['as']] = ('wraw', i)
        elif k == 'w_from_raw':
            _, i = H.pop(op['r'])
            H[op['as']] = ('weak', i)
        elif k == 'on_drop':
            self.ondrop.setdefault(op['obj'], []).extend(op['do'])
        elif k == 'clone_mode':
            self.clone_unlinked = (op['mode'] == 'unlinked')
        elif k == 'note':
            pass
        else:
            raise ValueError('std model: unsupported op %s' % k)
