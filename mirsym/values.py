"""Value domain of the MIR executor."""
import z3

MASK = (1 << 64) - 1
USIZE_MAX = MASK
ISIZE_MIN = 1 << 63


class _Uninit:
    def __repr__(self):
        return 'UNINIT'


UNINIT = _Uninit()


class Ptr(tuple):
    """Pointer = (object id, projection path)."""
    __slots__ = ()

    def __new__(cls, obj, path=()):
        return tuple.__new__(cls, (obj, tuple(path)))

    @property
    def obj(self):
        return self[0]

    @property
    def path(self):
        return self[1]

    def __repr__(self):
        return 'Ptr(#%s%s)' % (self[0], ''.join('.%s' % (p,) for p in self[1]))

    def field(self, i):
        return Ptr(self[0], self[1] + (i,))


class Dangling:
    """The usize::MAX sentinel pointer of Weak::new()."""
    def __repr__(self):
        return 'DANGLING'

    def __eq__(self, o):
        return isinstance(o, Dangling)

    def __hash__(self):
        return 77


DANGLING = Dangling()


class Agg:
    """Immutable aggregate: struct / enum variant / tuple / closure."""
    __slots__ = ('name', 'variant', 'fields', '_h')

    def __init__(self, name, variant=None, fields=()):
        self.name = name
        self.variant = variant
        self.fields = tuple(fields)
        self._h = None

    def __eq__(self, o):
        return isinstance(o, Agg) and self.name == o.name and self.variant == o.variant and self.fields == o.fields

    def __hash__(self):
        if self._h is None:
            self._h = hash((self.name, self.variant, self.fields))
        return self._h

    def __repr__(self):
        v = ('::%s' % self.variant) if self.variant is not None else ''
        if not self.fields:
            return '%s%s' % (self.name, v)
        return '%s%s(%s)' % (self.name, v, ', '.join(repr(f) for f in self.fields))

    def with_field(self, i, val):
        f = list(self.fields)
        while len(f) <= i:
            f.append(UNINIT)
        f[i] = val
        return Agg(self.name, self.variant, f)


UNIT = Agg('()')


def tup(*xs):
    return Agg('tuple', None, xs)


def some(x):
    return Agg('Option', 'Some', (x,))


NONE = Agg('Option', 'None')


class Own:
    """Owning token for a heap-backed container (HashMap / HashSet / Vec)."""
    __slots__ = ('obj',)

    def __init__(self, obj):
        self.obj = obj

    def __repr__(self):
        return 'Own(#%s)' % self.obj

    def __eq__(self, o):
        return isinstance(o, Own) and o.obj == self.obj

    def __hash__(self):
        return hash(('own', self.obj))


class TVal:
    """A value of the opaque payload type T (token)."""
    __slots__ = ('id',)

    def __init__(self, id):
        self.id = id

    def __repr__(self):
        return 'T#%s' % (self.id,)

    def __eq__(self, o):
        return isinstance(o, TVal) and o.id == self.id

    def __hash__(self):
        return hash(('T', self.id))


class PtrInt:
    """An integer obtained by exposing a pointer's address (ptr as usize)."""
    __slots__ = ('ptr',)

    def __init__(self, ptr):
        self.ptr = ptr

    def __repr__(self):
        return 'PtrInt(%r)' % (self.ptr,)


class OffsetTok:
    """offsetof-style token: byte distance from a base to base.path (sign = +1/-1).
    `tag` is set when the offset was computed for a concrete instantiation (offset_of::<RcBox<()>>): such a number is
    only valid for that type's layout."""
    __slots__ = ('path', 'sign', 'tag')

    def __init__(self, path, sign=1, tag=None):
        self.path = tuple(path)
        self.sign = sign
        self.tag = tag

    def __repr__(self):
        return 'Offset(%s%r)' % ('-' if self.sign < 0 else '+', self.path)


class Opaque:
    """Opaque token for things whose content is irrelevant (Layout, fmt args...)."""
    __slots__ = ('what',)

    def __init__(self, what):
        self.what = what

    def __repr__(self):
        return 'Opaque(%s)' % (self.what,)


class FnItem:
    __slots__ = ('name',)

    def __init__(self, name):
        self.name = name

    def __repr__(self):
        return 'FnItem(%s)' % self.name


# ------------------------------------------------------------ scalar helpers

def is_sym(x):
    return isinstance(x, z3.ExprRef)


def bv(x):
    if is_sym(x):
        return x
    return z3.BitVecVal(x & MASK, 64)


def to_bool(x):
    """python bool or z3 Bool"""
    return x


def s_not(x):
    if isinstance(x, bool):
        return not x
    return z3.Not(x)


def s_eq(a, b):
    if not is_sym(a) and not is_sym(b):
        return a == b
    if isinstance(a, bool) or isinstance(b, bool) or z3.is_bool(a) or z3.is_bool(b):
        a = a if is_sym(a) else z3.BoolVal(a)
        b = b if is_sym(b) else z3.BoolVal(b)
        return a == b
    return bv(a) == bv(b)


def s_ult(a, b):
    if not is_sym(a) and not is_sym(b):
        return (a & MASK) < (b & MASK)
    return z3.ULT(bv(a), bv(b))


def s_ule(a, b):
    if not is_sym(a) and not is_sym(b):
        return (a & MASK) <= (b & MASK)
    return z3.ULE(bv(a), bv(b))


def s_add(a, b):
    if not is_sym(a) and not is_sym(b):
        return (a + b) & MASK
    return bv(a) + bv(b)


def s_sub(a, b):
    if not is_sym(a) and not is_sym(b):
        return (a - b) & MASK
    return bv(a) - bv(b)


def s_ite(c, a, b):
    if isinstance(c, bool):
        return a if c else b
    return z3.If(c, bv(a), bv(b))
