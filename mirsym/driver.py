"""Scenario driver: interprets the script language against the MIR executor and
keeps the ghost ledger the oracles are stated over.

The same scripts are interpreted by the native runner (/verif/native) against
the real crate; in concrete mode the two observation traces must agree
(translator validation)."""
import z3
from values import *
import interp
from interp import Engine, Unsupported, Panic, Abort, UB, PathInfeasible

RC = 'rc::Rc<T>'
WEAK = 'rc::Weak<T>'


class Violation(Exception):
    def __init__(self, prop, clause, detail, model=None):
        Exception.__init__(self, '%s/%s: %s' % (prop, clause, detail))
        self.prop = prop
        self.clause = clause
        self.detail = detail
        self.model = model


class ScriptError(Exception):
    pass


class Payload:
    def __init__(self, pid, obj):
        self.pid = pid
        self.obj = obj          # object index whose RcBox (originally) holds it, or None
        self.strong = []        # list of [Rc value, target obj index]
        self.weak = []
        self.dropped = 0


class ObjInfo:
    def __init__(self, idx, box):
        self.idx = idx
        self.box = box          # heap id of the RcBox allocation
        self.pid = idx          # payload currently stored in it
        self.extra = 0          # symbolic/concrete count of extra program-held strong handles
        self.wextra = 0
        self.extra_real = []    # concrete mode: real handle values
        self.wextra_real = []
        self.destroyed = False
        self.freed = False
        self.unwrapped = False  # value moved out by try_unwrap/make_mut


class Scenario:
    """One execution (one path) of one script."""

    def __init__(self, P, script, decisions=None, layout=None, sym=False, oracles=(), opts=None):
        self.P = P
        self.script = script
        self.sym = sym
        self.oracles = set(oracles)
        self.opts = opts or {}
        self.E = Engine(P, hooks=self, decisions=decisions, layout=layout)
        self.E.loop_bound = self.opts.get('loop_bound', 64)
        self.handles = {}     # name -> dict(kind='rc'|'weak'|'raw'|'val', ptr=Ptr, obj=idx)
        self.objs = {}        # idx -> ObjInfo
        self.box2obj = {}
        self.payloads = {}    # pid -> Payload
        self.trace = []
        self.ondrop = {}      # obj idx -> list of ops
        self.ondrop_panic = set()
        self.rec = {}         # (i, j) -> recorded adoptions i owns j (by API calls)   (i == j: through a clone)
        self.rec_same = {}    # i -> same-handle self adoptions
        self.next_pid = 1000
        self.symvars = {}
        self.dtor_stack = []
        self.sink = []
        self.in_op = None
        self.op_index = -1
        self.status = 'ok'
        self.dying = set()    # objects whose teardown has begun
        self.notes = []
        self.cost = {}        # per-op event counters (C14/C15)
        self.subject = None
        self.xchecks = []
        self.xcheck_left = int(self.opts.get('xcheck', 0))
        self.xcheck_every = int(self.opts.get('xcheck_every', 7))
        self.nqueries_oracle = 0
        self.rawvals = {}
        self._raw = None
        self.deferred = []
        self.nested_orphans = []
        self.interrupted = set()
        self.orphan_stack = []
        self.stale = bool(self.opts.get('stale'))    # a recorded handle was removed without unadopt (C13 histories)

    # ------------------------------------------------------------ helpers
    def body(self, sh, tr, m):
        b = self.P.methods.get((sh, tr, m))
        if b is None:
            raise Unsupported('no MIR body for %s/%s/%s' % (sh, tr, m))
        return b

    def call(self, sh, tr, m, *args):
        return self.E.run_body(self.body(sh, tr, m), list(args), RC if sh == 'Rc' else (WEAK if sh == 'Weak' else None))

    def tmp(self, v):
        return Ptr(self.E.new_obj('tmp', v))

    def h(self, name, kind=None):
        if name.startswith('@') or name.startswith('^'):
            # k-th strong (@k) / weak (^k) slot of the value whose destructor is running
            if not self.dtor_stack:
                raise ScriptError('slot reference outside a destructor')
            pl = self.payloads[self.dtor_stack[-1]]
            k = int(name[1:])
            hv, tgt = (pl.strong if name[0] == '@' else pl.weak)[k]
            x = dict(kind='rc' if name[0] == '@' else 'weak', ptr=self.tmp(hv), obj=tgt, slot=True)
            if kind and x['kind'] != kind:
                raise ScriptError('slot %s is %s' % (name, x['kind']))
            return x
        x = self.handles.get(name)
        if x is None:
            raise ScriptError('unknown handle %s' % name)
        if kind and x['kind'] != kind:
            raise ScriptError('handle %s is %s, not %s' % (name, x['kind'], kind))
        return x

    def obj_of_rc(self, v):
        """object index a handle value points to"""
        p = self.ptr_of(v)
        if p is DANGLING:
            return None
        return self.box2obj.get(p.obj)

    def ptr_of(self, v):
        for f in v.fields:
            if isinstance(f, (Ptr, Dangling)):
                return f
        raise Unsupported('no pointer in handle value %r' % (v,))

    def symvar(self, name):
        if name not in self.symvars:
            self.symvars[name] = z3.BitVec(name, 64)
        return self.symvars[name]

    # ------------------------------------------------------------ reading the model's private state
    def rcbox(self, idx):
        o = self.E.heap[self.objs[idx].box]
        return o

    def field(self, idx, k):
        o = self.rcbox(idx)
        v = o.value
        if not isinstance(v, Agg) or k >= len(v.fields):
            return UNINIT
        return v.fields[k]

    def strong(self, idx):
        return self.field(idx, 0)

    def weakc(self, idx):
        return self.field(idx, 1)

    def table(self, idx):
        """-> dict {(kindname, target idx): count} or None if moved out"""
        l = self.field(idx, 2)
        if l is UNINIT:
            return None
        # the table is found by looking for the owned map inside the RefCell<Links> value, whatever wraps it
        # (a representation such as Option<HashMap> with None is an empty table)
        def find(v, depth=0):
            if isinstance(v, Own):
                return v
            if isinstance(v, Agg) and depth < 5:
                for f in v.fields:
                    r = find(f, depth + 1)
                    if r is not None:
                        return r
            return None
        own = find(l)
        if own is None:
            return {}
        mo = self.E.heap[own.obj]
        if mo.kind != 'map':
            return {}
        if not mo.live:
            return 'freed'
        out = {}
        for k in mo.value.keys:
            out[self.key_desc(k)] = mo.value.vals[k]
        return out

    def key_desc(self, k):
        p = None
        kind = None
        for f in k.fields:
            if isinstance(f, Ptr):
                p = f
            elif isinstance(f, Agg) and f.name == 'Kind':
                kind = f.variant
        return (kind, self.box2obj.get(p.obj, ('?', p.obj)))

    # ------------------------------------------------------------ hooks (called by the engine)
    def drop_T(self, E, v):
        if not isinstance(v, TVal):
            raise Unsupported('drop of non-payload %r' % (v,))
        pl = self.payloads[v.id]
        pl.dropped += 1
        if pl.dropped > 1:
            raise Violation('C02', 'destructor-once', 'destructor of payload %s ran twice' % v.id)
        self.trace.append(['dtor', v.id])
        idx = pl.obj
        if idx is not None and idx in self.objs and self.objs[idx].pid == v.id and not self.objs[idx].unwrapped:
            self.on_destroy(idx)
        self.dtor_stack.append(v.id)
        first = None
        cost0 = self.cost_snapshot()
        try:
            try:
                for op in self.ondrop.get(v.id, []):
                    self.run_op(op, in_dtor=True)
                if v.id in self.ondrop_panic:
                    raise Panic('scripted destructor panic of %s' % v.id, 'dtor')
            except Panic as p:
                first = p
            # fields are dropped whether or not Drop::drop panicked
            while pl.strong:
                hv, tgt = pl.strong.pop(0)
                snap = self.dead_snapshot(tgt)
                norp = self.orphan_condition(tgt) if ('C03' in self.oracles and not self.stale and tgt in self.objs) else None
                try:
                    E.drop_in_place(self.tmp(hv), RC, None)
                    if norp is not None and norp[1] is not False:
                        # judged when the enclosing operation has returned: the target may be a member of a group whose
                        # members are destroyed a little later by the same outer collection
                        self.nested_orphans.append((norp, 'inside op %d (drop of a handle stored in the dying value %s)' % (self.op_index, v.id)))
                    if snap is not None and snap != self.dead_snapshot(tgt):
                        raise Violation('C16' if 'C16' in self.oracles else 'C02', 'drop-of-dead-handle-has-effect',
                                        'dropping a handle to the already destroyed object %d changed its state %r -> %r' % (tgt, snap, self.dead_snapshot(tgt)))
                except Panic as p:
                    if first is not None:
                        raise Abort('second panic while dropping the fields of payload %s' % v.id)
                    first = p
            while pl.weak:
                wv, tgt = pl.weak.pop(0)
                try:
                    E.drop_in_place(self.tmp(wv), WEAK, None)
                except Panic as p:
                    if first is not None:
                        raise Abort('second panic while dropping the fields of payload %s' % v.id)
                    first = p
        finally:
            self.dtor_stack.pop()
            c1 = self.cost_snapshot()
            self.excluded = [a + (y - x) for a, x, y in zip(getattr(self, 'excluded', [0, 0, 0]), cost0, c1)]
        if first is not None:
            raise first

    def dead_snapshot(self, idx):
        """(strong, weak, allocated) of an object that is already marked dead, else None"""
        if not (self.oracles & {'C16', 'C02'}) or idx not in self.objs:
            return None
        o = self.rcbox(idx)
        if not o.live:
            return ('released',)
        s = self.strong(idx)
        if is_sym(s) or s not in (0, MASK):
            return None
        return (s, repr(self.weakc(idx)), o.live, self.field(idx, 2) is UNINIT, self.field(idx, 3) is UNINIT)

    def cost_snapshot(self):
        cc = self.E.call_counts
        return [self.E.alloc_events, cc.get('cycle_refs', 0),
                sum(v for k, v in cc.items() if k.endswith('::orphaned_cycle'))]

    def on_destroy(self, idx):
        oi = self.objs[idx]
        if 'C05' in self.oracles:
            for name, x in self.handles.items():
                if x.get('updtor') is not None and x['obj'] == idx:
                    raise Violation('C05', 'upgrade-resurrects-dying',
                                    'Weak::upgrade (called inside the destructor of value %s) returned a handle to object %d, and the object was destroyed while that handle was still held' % (x['updtor'], idx),
                                    self.model_values(None))
        if 'C01' in self.oracles:
            self.check_not_reachable(idx, 'destructor ran')
        if 'C13' in self.oracles:
            self.check_not_reachable(idx, 'destructor ran', prop='C13')
            # weaker than reachability from the program: a value whose destructor is running further up the stack (it is
            # dropping its fields one by one and is not part of this collection) still holds a strong handle to the object;
            # destroying the object now leaves that handle dangling
            n_anc = 0
            for pid in self.dtor_stack:
                for hv, tgt in self.payloads[pid].strong:
                    if tgt == idx:
                        n_anc += 1
            if n_anc:
                self.subject = [idx]
                raise Violation('C13', 'destroyed-while-held',
                                'destructor ran for object %d although the value %s, whose fields are still being dropped, holds %d more strong handle(s) to it'
                                % (idx, self.dtor_stack[-1], n_anc), self.model_values(None))
        if 'C12' in self.oracles:
            self.check_not_reachable(idx, 'destructor ran', prop='C12')
        oi.destroyed = True
        if 'C08' in self.oracles and not self.stale:
            # "at every point": while a value is being destroyed no live object's table may still name its object
            for j, oj in self.objs.items():
                if j == idx or oj.destroyed or oj.unwrapped or oj.freed or not self.rcbox(j).live:
                    continue
                t = self.table(j)
                if t is None or t == 'freed':
                    continue          # j is itself in the middle of its teardown
                s = self.strong(j)
                if not is_sym(s) and s in (0, MASK):
                    continue
                for (kind, tgt), cnt in t.items():
                    if tgt == idx:
                        self.subject = [j]
                        raise Violation('C08', 'names-dead-during-teardown',
                                        'while the value of object %d is being destroyed, the table of live object %d still has a %s record naming it' % (idx, j, kind),
                                        self.model_values(None))

    def on_dealloc(self, E, heap_id):
        idx = self.box2obj.get(heap_id)
        if idx is None:
            return
        oi = self.objs[idx]
        if 'C01' in self.oracles and not oi.destroyed and not oi.unwrapped:
            raise Violation('C01', 'freed-live', 'allocation of object %d released while its value is alive' % idx)
        if 'C05' in self.oracles:
            # the block must outlive every Weak handle
            c = self.weak_holders(idx)
            if c is not None:
                self.require(s_eq(c, 0), 'C05', 'block-freed-with-weak',
                             'allocation of object %d released while Weak handles to it exist' % idx)
        oi.freed = True

    def clone_T(self, E, v):
        pl = self.payloads[v.id]
        self.trace.append(['tclone', v.id])
        if getattr(self, 'clone_panics', False):
            raise Panic('T::clone panicked (script)')
        npid = self.next_pid
        self.next_pid += 1
        np = Payload(npid, None)
        self.payloads[npid] = np
        if getattr(self, 'clone_unlinked', False):
            # T::clone that does not copy the handles the value holds (a "fresh, unlinked" copy)
            return TVal(npid)
        for hv, tgt in pl.strong:
            nv = self.call('Rc', 'Clone', 'clone', self.tmp(hv))
            np.strong.append([nv, tgt])
        for wv, tgt in pl.weak:
            nv = self.call('Weak', 'Clone', 'clone', self.tmp(wv))
            np.weak.append([nv, tgt])
        return TVal(npid)

    def default_T(self, E):
        raise Unsupported('T::default')

    def method_T(self, E, key, vals):
        """T's own trait methods: values compare by their id (the native Node does the same)"""
        self.trace.append(['tmethod', key, [v.id if isinstance(v, TVal) else None for v in vals]])
        m = key.split('::')[-1]
        if m in ('eq', 'ne', 'lt', 'le', 'gt', 'ge', 'cmp', 'partial_cmp') and len(vals) >= 2 and all(isinstance(v, TVal) for v in vals[:2]):
            x, y = vals[0].id, vals[1].id
            self.trace.append(['tcmp', m, x, y])
            if m in ('cmp', 'partial_cmp'):
                o = Agg('Ordering', 'Less' if x < y else ('Equal' if x == y else 'Greater'))
                return o if m == 'cmp' else some(o)
            return {'eq': x == y, 'ne': x != y, 'lt': x < y, 'le': x <= y, 'gt': x > y, 'ge': x >= y}[m]
        if m == 'hash' and vals and isinstance(vals[0], TVal):
            self.sink.append(('T::hash', vals[0].id))
            return UNIT
        if m == 'fmt' and vals and isinstance(vals[0], TVal) and ('Display' in key or 'Debug' in key):
            self.sink.append(('T::Display' if 'Display' in key else 'T::Debug', vals[0].id))
            return Agg('Result', 'Ok', (UNIT,))
        if key == 'Pointer::fmt':
            self.sink.append(('ptr', vals[0]))
            return Agg('Result', 'Ok', (UNIT,))
        raise Unsupported('T method %s' % key)

    def sink_event(self, E, kind, detail):
        self.sink.append((kind, detail))

    def sink_text(self, x):
        """what the writes of one formatting call amount to (T's own impls print node<id> / Node(<id>))"""
        out = []
        for (kind, d) in self.sink:
            if kind == 'T::Display':
                out.append('node%d' % d)
            elif kind == 'T::Debug':
                out.append('Node(%d)' % d)
            elif kind == 'str':
                out.append(str(d))
            elif kind == 'spec-dropped':
                out.append('[spec-dropped]')
            elif kind == 'ptr':
                oi = self.objs.get(x['obj']) if x.get('obj') is not None else None
                ok = isinstance(d, Ptr) and oi is not None and d.obj == oi.box and len(d.path) >= 1 and d.path[0] == 3 and all(q == 0 for q in d.path[1:])
                out.append('<ptr:value-of-self>' if ok else '<ptr:other>')
            else:
                out.append('<%s>' % kind)
        return ''.join(out)

    # ------------------------------------------------------------ ledger queries
    def live_payloads_of(self, idx):
        return None

    def holders(self, j):
        """python int + symbolic: number of existing strong handles to object j"""
        n = 0
        for name, x in self.handles.items():
            if x['kind'] == 'rc' and x['obj'] == j:
                n += 1
            if x['kind'] == 'raw' and x['obj'] == j and x.get('counts', True):
                n += 1
        for pid, pl in self.payloads.items():
            for hv, tgt in pl.strong:
                if tgt == j:
                    n += 1
        n += len(self.objs[j].extra_real)
        return s_add(n, self.objs[j].extra) if is_sym(self.objs[j].extra) else n + self.objs[j].extra

    def weak_holders(self, j):
        n = 0
        for name, x in self.handles.items():
            if x['kind'] == 'weak' and x['obj'] == j:
                n += 1
            if x['kind'] == 'wraw' and x['obj'] == j:
                n += 1
        for pid, pl in self.payloads.items():
            for wv, tgt in pl.weak:
                if tgt == j:
                    n += 1
        n += len(self.objs[j].wextra_real)
        return s_add(n, self.objs[j].wextra) if is_sym(self.objs[j].wextra) else n + self.objs[j].wextra

    def reach_formula(self, j):
        """z3/py bool: object j is reachable from a strong handle the program holds"""
        # roots: program handles / extras ; edges: payload slots of live (not destroyed) objects
        # compute for every object the disjunction over all paths (small graphs: fixpoint over sets)
        objs = list(self.objs)
        root = {}
        for i in objs:
            c = False
            for name, x in self.handles.items():
                if (x['kind'] == 'rc' or (x['kind'] == 'raw' and x.get('counts', True))) and x['obj'] == i:
                    c = True
            if self.objs[i].extra_real:
                c = True
            e = self.objs[i].extra
            if is_sym(e):
                root[i] = True if c else z3.UGT(e, 0)
            else:
                root[i] = c or e > 0
        # value payloads not inside an RcBox (unwrapped values / clones held by program) are roots too
        edges = {i: set() for i in objs}
        for pid, pl in self.payloads.items():
            if pl.dropped:
                # handles still held by a value whose destructor has begun do not make their
                # targets reachable *from the program*
                continue
            src = pl.obj
            for hv, tgt in pl.strong:
                if src is None:
                    # free-standing value held by the program (unwrapped / cloned value)
                    root[tgt] = True
                else:
                    edges[src].add(tgt)
        reach = dict(root)
        for _ in range(len(objs)):
            new = {}
            for i in objs:
                terms = [reach[i]]
                for s in objs:
                    if i in edges[s] and not self.objs[s].destroyed:
                        terms.append(reach[s])
                if any(t is True for t in terms):
                    new[i] = True
                else:
                    ts = [t for t in terms if t is not False]
                    new[i] = False if not ts else (ts[0] if len(ts) == 1 else z3.Or(*ts))
            reach = new
        return reach[j]

    def require(self, cond, prop, clause, detail, subject=None):
        """oracle clause: `cond` must hold on every model of the path condition"""
        if subject is not None:
            self.subject = subject
        if isinstance(cond, bool):
            if not cond:
                raise Violation(prop, clause, detail, self.model_values(None))
            return
        self.nqueries_oracle = getattr(self, 'nqueries_oracle', 0) + 1
        sc = z3.simplify(cond)
        if z3.is_true(sc):
            return
        bad = self.E.check(z3.Not(cond))
        if self.xcheck_left > 0 and (self.nqueries_oracle % self.xcheck_every) == 0:
            # second opinion: the same query is written out as SMT-LIB2 and decided by cvc5 after the path
            self.xcheck_left -= 1
            s2 = z3.Solver()
            s2.add(self.E.solver.assertions())
            s2.add(z3.Not(cond))
            self.xchecks.append((s2.to_smt2(), 'sat' if bad else 'unsat'))
        if bad:
            raise Violation(prop, clause, detail, self.model_values(z3.Not(cond)))

    def model_values(self, extra):
        if not self.symvars:
            return {}
        # prefer small witnesses
        E = self.E
        E.solver.push()
        if extra is not None:
            E.solver.add(extra)
        out = None
        for bound in (2, 8, 1 << 20, None):
            E.solver.push()
            if bound is not None:
                for v in self.symvars.values():
                    E.solver.add(z3.ULE(v, bound))
            if E.solver.check() == z3.sat:
                m = E.solver.model()
                out = {n: (m.eval(v, model_completion=True).as_long()) for n, v in self.symvars.items()}
                E.solver.pop()
                break
            E.solver.pop()
        E.solver.pop()
        return out

    def check_not_reachable(self, idx, what, prop='C01'):
        r = self.reach_formula(idx)
        self.subject = [idx]
        if r is False:
            return
        if r is True:
            raise Violation(prop, 'destroyed-reachable', '%s for object %d which is reachable from a held handle' % (what, idx),
                            self.model_values(None))
        self.require(z3.Not(r), prop, 'destroyed-reachable',
                     '%s for object %d which is reachable from a held handle' % (what, idx))

    # ------------------------------------------------------------ ops
    def run(self):
        """execute the whole script; returns status string"""
        try:
            for i, op in enumerate(self.script['ops']):
                self.op_index = i
                self.trace.append(['op', i])
                self.run_op(op)
                if self.opts.get('instrument'):
                    self.observe_all(op)
                self.after_op(op)
            self.at_end()
        except Panic as p:
            self.status = 'panic'
            self.trace.append(['uncaught-panic'])
            self.panic_msg = p.msg
            self.on_uncaught_panic(p)
        except Abort as a:
            self.status = 'abort'
            self.trace.append(['abort'])
            self.abort_msg = str(a)
            self.on_abort(a)
        return self.status

    def observe_all(self, op):
        """replay instrumentation: one Weak observer per object, read after every operation"""
        if op['op'] == 'new':
            self.run_op({'op': 'downgrade', 'h': op['as'], 'as': '__w%d' % op['obj']})
            return
        for idx in sorted(self.objs):
            if ('__w%d' % idx) in self.handles:
                self.run_op({'op': 'w_strong_count', 'w': '__w%d' % idx})
                self.run_op({'op': 'w_weak_count', 'w': '__w%d' % idx})
        if self.opts.get('instrument') == 'links':
            for name in sorted(self.handles):
                x = self.handles[name]
                if x['kind'] == 'rc' and not name.startswith('__'):
                    self.run_op({'op': 'links', 'h': name})

    def on_uncaught_panic(self, p):
        if 'C16' in self.oracles and getattr(self, 'clone_of_dead', None):
            v = Violation('C16', 'clone-of-dead-unwinds', 'Rc::clone of a handle to a destroyed object raised an ordinary (catchable) panic instead of terminating the process: %s' % p.msg,
                          self.model_values(None))
            v.stack = getattr(p, 'stack', [])
            raise v
        if not self.opts.get('panics_ok'):
            raise Violation(self.opts.get('target', 'C10'), 'library-panic',
                            'operation %d (%s) panicked: %s' % (self.op_index, self.script['ops'][self.op_index].get('op'), p.msg),
                            self.model_values(None))

    def on_abort(self, a):
        if self.opts.get('abort_ok') == 'clone-of-dead':
            if getattr(self, 'clone_of_dead', None):
                return
            raise Violation('C16', 'unexpected-abort', 'operation %d aborted although no handle to a destroyed object was cloned: %s' % (self.op_index, a),
                            self.model_values(None))
        if not self.opts.get('abort_ok'):
            raise Violation(self.opts.get('target', 'C16'), 'unexpected-abort',
                            'operation %d aborted the process: %s' % (self.op_index, a), self.model_values(None))

    def obs(self, op, val):
        self.trace.append(['ret', op['op'], val])
        self.rawvals[len(self.trace) - 1] = self._raw if self._raw is not None else val
        self._raw = None

    def set_handle(self, name, kind, value, obj):
        if name in self.handles:
            raise ScriptError('handle %s already exists' % name)
        self.handles[name] = dict(kind=kind, ptr=self.tmp(value), obj=obj)

    def run_op(self, op, in_dtor=False):
        E = self.E
        k = op['op']
        before = None
        if op.get('cost'):
            self.excluded = [0, 0, 0]
            cost_before = self.cost_snapshot()
        if k == 'new':
            idx = op['obj']
            if idx in self.objs:
                raise ScriptError('object %d exists' % idx)
            self.payloads[idx] = Payload(idx, idx)
            v = self.call('Rc', None, 'new', TVal(idx))
            p = self.ptr_of(v)
            self.objs[idx] = ObjInfo(idx, p.obj)
            self.box2obj[p.obj] = idx
            E.heap[p.obj].meta['label'] = ' (RcBox of object %d)' % idx
            self.set_handle(op['as'], 'rc', v, idx)
        elif k in ('new_from', 'new_from_box'):
            idx = op['obj']
            self.payloads[idx] = Payload(idx, idx)
            if k == 'new_from':
                v = E.run_body(self.body('Rc', 'From<T>', 'from'), [TVal(idx)], RC)
            else:
                bo = E.new_obj('box', TVal(idx), {'label': ' (Box<T> of the caller)'})
                E.alloc_events += 1
                v = E.run_body(self.body('Rc', 'From<Box>', 'from'), [Ptr(bo)], RC)
                if E.heap[bo].live:
                    raise Violation('C07', 'from-box-leaks-box', 'Rc::from(Box<T>) did not release the box allocation')
            p = self.ptr_of(v)
            self.objs[idx] = ObjInfo(idx, p.obj)
            self.box2obj[p.obj] = idx
            E.heap[p.obj].meta['label'] = ' (RcBox of object %d)' % idx
            self.set_handle(op['as'], 'rc', v, idx)
        elif k in ('hash', 'fmt_display', 'fmt_debug', 'fmt_pointer', 'wfmt_debug'):
            x = self.h(op['w'], 'weak') if k == 'wfmt_debug' else self.h(op['h'], 'rc')
            self.sink = []
            sinkp = Ptr(E.new_obj('sink', Opaque('sink')))
            if k == 'hash':
                self.call('Rc', 'Hash', 'hash', x['ptr'], sinkp)
                ids = [d for (kk, d) in self.sink if kk == 'T::hash']
                self.obs(op, 'thash=%d,extra=%d,ids=%s' % (len(ids), len(self.sink) - len(ids), '+'.join(str(i) for i in ids) or '-'))
            else:
                r = self.call('Weak' if k == 'wfmt_debug' else 'Rc', {'fmt_display': 'Display', 'fmt_debug': 'Debug', 'fmt_pointer': 'Pointer', 'wfmt_debug': 'Debug'}[k], 'fmt', x['ptr'], sinkp)
                self.obs(op, '%s:%s' % (self.sink_text(x), 'ok' if isinstance(r, Agg) and r.variant == 'Ok' else 'err'))
        elif k in ('eq', 'ne', 'lt', 'le', 'gt', 'ge', 'cmp', 'partial_cmp'):
            a = self.h(op['a'], 'rc')
            b = self.h(op['b'], 'rc')
            tr = {'eq': 'PartialEq', 'ne': 'PartialEq', 'cmp': 'Ord'}.get(k, 'PartialOrd')
            r = self.call('Rc', tr, k, a['ptr'], b['ptr'])
            if isinstance(r, Agg) and r.name == 'Option':
                r = r.fields[0]
            self.obs(op, r.variant if isinstance(r, Agg) else ('true' if r else 'false'))
        elif k == 'clone':
            x = self.h(op['h'], 'rc')
            dead = None
            if 'C16' in self.oracles and x['obj'] in self.objs:
                s = self.strong(x['obj']) if self.rcbox(x['obj']).live else 0
                dead = (not is_sym(s)) and s in (0, MASK)
                self.clone_of_dead = dead
            v = self.call('Rc', 'Clone', 'clone', x['ptr'])
            if dead:
                raise Violation('C16', 'clone-of-dead-returned', 'Rc::clone of a handle to the destroyed object %d returned a handle instead of aborting' % x['obj'],
                                self.model_values(None))
            self.set_handle(op['as'], 'rc', v, x['obj'])
        elif k == 'drop':
            x = self.h(op['h'], 'rc')
            del self.handles[op['h']]
            self.pre_drop(x['obj'])
            try:
                E.drop_in_place(x['ptr'], RC, None)
            finally:
                self.post_drop(x['obj'], before)
        elif k == 'drop_via_raw':
            # the handle is given up through Rc::into_raw + Rc::decrement_strong_count instead of an ordinary drop
            x = self.h(op['h'], 'rc')
            del self.handles[op['h']]
            p = self.call('Rc', None, 'into_raw', E.read(x['ptr']))
            self.pre_drop(x['obj'])
            try:
                self.call('Rc', None, 'decrement_strong_count', p)
            finally:
                self.post_drop(x['obj'], before)
        elif k == 'extras':
            # n additional program-held strong handles (symbolic in sym mode)
            x = self.h(op['h'], 'rc')
            oi = self.objs[x['obj']]
            n = op['n']
            if isinstance(n, str):
                if not self.sym:
                    raise ScriptError('symbolic extras in concrete mode')
                e = self.symvar(n)
                s = self.strong(oi.idx)
                # counter generalisation: e clones add e (lemma clone-adds-one), no overflow into the sentinels
                E.assume(z3.ULE(e, MASK - 2 - 64))
                E.assume(z3.ULE(bv(s), MASK - 2 - 64 - e))
                E.write(Ptr(oi.box, (0,)), s_add(s, e))
                oi.extra = s_add(oi.extra, e)
            else:
                for _ in range(n):
                    oi.extra_real.append(self.call('Rc', 'Clone', 'clone', x['ptr']))
        elif k == 'drop_extra':
            oi = self.objs[op['obj']]
            if oi.extra_real:
                v = oi.extra_real.pop()
            else:
                if not is_sym(oi.extra):
                    raise ScriptError('no extra handle to drop')
                E.assume(z3.UGT(oi.extra, 0))
                oi.extra = oi.extra - 1
                v = self.make_rc(oi)
            self.pre_drop(oi.idx)
            try:
                E.drop_in_place(self.tmp(v), RC, None)
            finally:
                self.post_drop(oi.idx, before)
        elif k == 'wextras':
            x = self.h(op['h'], 'rc')
            oi = self.objs[x['obj']]
            n = op['n']
            if isinstance(n, str):
                if not self.sym:
                    raise ScriptError('symbolic wextras in concrete mode')
                e = self.symvar(n)
                w = self.weakc(oi.idx)
                E.assume(z3.ULE(e, MASK - 2 - 64))
                E.assume(z3.ULE(bv(w), MASK - 2 - 64 - e))
                E.write(Ptr(oi.box, (1,)), s_add(w, e))
                oi.wextra = s_add(oi.wextra, e)
            else:
                for _ in range(n):
                    oi.wextra_real.append(self.call('Rc', None, 'downgrade', x['ptr']))
        elif k == 'drop_wextra':
            oi = self.objs[op['obj']]
            if oi.wextra_real:
                v = oi.wextra_real.pop()
            else:
                if not is_sym(oi.wextra):
                    raise ScriptError('no extra weak handle to drop')
                E.assume(z3.UGT(oi.wextra, 0))
                oi.wextra = oi.wextra - 1
                v = self.make_weak(oi)
            E.drop_in_place(self.tmp(v), WEAK, None)
        elif k == 'store':
            own = self.h(op['via'], 'rc')
            x = self.h(op['h'], 'rc')
            del self.handles[op['h']]
            pl = self.payload_in(own['obj'])
            pl.strong.append([E.read(x['ptr']), x['obj']])
        elif k == 'take':
            own = self.h(op['via'], 'rc')
            pl = self.payload_in(own['obj'])
            hv, tgt = pl.strong.pop(op['slot'])
            self.set_handle(op['as'], 'rc', hv, tgt)
        elif k == 'store_weak':
            own = self.h(op['via'], 'rc')
            x = self.h(op['w'], 'weak')
            del self.handles[op['w']]
            pl = self.payload_in(own['obj'])
            pl.weak.append([E.read(x['ptr']), x['obj']])
        elif k == 'take_weak':
            own = self.h(op['via'], 'rc')
            pl = self.payload_in(own['obj'])
            wv, tgt = pl.weak.pop(op['slot'])
            self.set_handle(op['as'], 'weak', wv, tgt)
        elif k in ('self_take', 'self_take_weak'):
            # inside a destructor: move slot k of the value that is being destroyed into a named handle
            if not self.dtor_stack:
                raise ScriptError('self_take outside a destructor')
            pl = self.payloads[self.dtor_stack[-1]]
            if k == 'self_take':
                hv, tgt = pl.strong.pop(op['slot'])
                self.set_handle(op['as'], 'rc', hv, tgt)
            else:
                wv, tgt = pl.weak.pop(op['slot'])
                self.set_handle(op['as'], 'weak', wv, tgt)
        elif k == 'adopt':
            a = self.h(op['a'], 'rc')
            b = self.h(op['b'], 'rc')
            self.call('Rc', 'Adopt', 'adopt_unchecked', a['ptr'], b['ptr'])
            if op['a'] == op['b']:
                self.rec_same[a['obj']] = self.rec_same.get(a['obj'], 0) + 1
            else:
                key = (a['obj'], b['obj'])
                self.rec[key] = self.rec.get(key, 0) + 1
        elif k == 'unadopt':
            a = self.h(op['a'], 'rc')
            b = self.h(op['b'], 'rc')
            self.call('Rc', 'Adopt', 'unadopt', a['ptr'], b['ptr'])
            if op['a'] == op['b']:
                self.rec_same[a['obj']] = max(0, self.rec_same.get(a['obj'], 0) - 1)
            else:
                key = (a['obj'], b['obj'])
                self.rec[key] = max(0, self.rec.get(key, 0) - 1)
        elif k == 'downgrade':
            x = self.h(op['h'], 'rc')
            w = self.call('Rc', None, 'downgrade', x['ptr'])
            self.set_handle(op['as'], 'weak', w, x['obj'])
        elif k == 'weak_new':
            w = self.call('Weak', None, 'new')
            self.set_handle(op['as'], 'weak', w, None)
        elif k == 'upgrade':
            x = self.h(op['w'], 'weak')
            r = self.call('Weak', None, 'upgrade', x['ptr'])
            if r.variant == 'Some':
                hv = r.fields[0]
                tgt = self.obj_of_rc(hv)
                self.obs(op, 'some')
                self.check_upgrade(x, True, hv)
                if op.get('as'):
                    self.set_handle(op['as'], 'rc', hv, tgt)
                    if self.dtor_stack:
                        self.handles[op['as']]['updtor'] = self.dtor_stack[-1]
                else:
                    self.pre_drop(tgt)
                    try:
                        E.drop_in_place(self.tmp(hv), RC, None)
                    finally:
                        self.post_drop(tgt, None)
            else:
                self.obs(op, 'none')
                self.check_upgrade(x, False, None)
        elif k == 'wclone':
            x = self.h(op['w'], 'weak')
            w = self.call('Weak', 'Clone', 'clone', x['ptr'])
            self.set_handle(op['as'], 'weak', w, x['obj'])
        elif k == 'wdrop':
            x = self.h(op['w'], 'weak')
            del self.handles[op['w']]
            E.drop_in_place(x['ptr'], WEAK, None)
        elif k == 'strong_count':
            x = self.h(op['h'], 'rc')
            r = self.call('Rc', None, 'strong_count', x['ptr'])
            self.obs(op, self.conc(r))
            if 'C06' in self.oracles and not self.is_dead_handle(x):
                self.require(s_eq(r, self.holders(x['obj'])), 'C06', 'strong-count',
                             'Rc::strong_count of object %d differs from the number of existing strong handles' % x['obj'])
        elif k == 'weak_count':
            x = self.h(op['h'], 'rc')
            r = self.call('Rc', None, 'weak_count', x['ptr'])
            self.obs(op, self.conc(r))
            if 'C06' in self.oracles and not self.is_dead_handle(x):
                self.require(s_eq(r, self.weak_holders(x['obj'])), 'C06', 'weak-count',
                             'Rc::weak_count of object %d differs from the number of existing Weak handles' % x['obj'])
        elif k == 'w_strong_count' or k == 'w_weak_count':
            x = self.h(op['w'], 'weak')
            strong = (k == 'w_strong_count')
            r = self.call('Weak', None, 'strong_count' if strong else 'weak_count', x['ptr'])
            self.obs(op, self.conc(r))
            if self.oracles & {'C05', 'C06'} and x['obj'] is not None:
                oi = self.objs[x['obj']]
                lab = 'C06' if 'C06' in self.oracles else 'C05'
                what = 'strong_count' if strong else 'weak_count'
                if oi.destroyed or oi.unwrapped or oi.idx in self.interrupted:
                    self.require(s_eq(r, 0), 'C05' if 'C05' in self.oracles else lab, 'weak-%s-dead' % ('strong-count' if strong else 'weak-count'),
                                 'Weak::%s of destroyed object %d is not 0' % (what, oi.idx), subject=[oi.idx])
                else:
                    exp = self.holders(oi.idx) if strong else self.weak_holders(oi.idx)
                    ok = s_eq(r, exp)
                    if self.dtor_stack:
                        # inside a destructor the target may be a doomed peer of the group that is being collected:
                        # 0 is then the right answer, provided the object is destroyed before the operation returns
                        z = s_eq(r, 0)
                        if z is True or (z is not False and not self.E.check(z3.Not(z))):
                            self.deferred.append((oi.idx, False, self.dtor_stack[-1]))
                            ok = True
                    self.require(ok, lab, 'weak-%s' % ('strong-count' if strong else 'weak-count'),
                                 'Weak::%s of live object %d differs from the number of %s handles' % (what, oi.idx, 'strong' if strong else 'Weak'), subject=[oi.idx])
        elif k == 'links':
            x = self.h(op['h'], 'rc')
            t = self.table(x['obj'])
            if t is None or t == 'freed':
                raise UB('uninit-read', 'links of a moved-out table')
            items = sorted('%s%s=%s' % (kk[0], tg if isinstance(tg, int) else '?', self.conc(c)) for (kk, tg), c in t.items())
            self.obs(op, ','.join(items) if items else '-')
        elif k == 'ptr_eq':
            a = self.h(op['a'], 'rc')
            b = self.h(op['b'], 'rc')
            r = self.call('Rc', None, 'ptr_eq', a['ptr'], b['ptr'])
            self.obs(op, bool(r))
            if 'C06' in self.oracles:
                self.require(r == (a['obj'] == b['obj']), 'C06', 'ptr-eq', 'ptr_eq(%s,%s) wrong' % (op['a'], op['b']))
        elif k == 'w_ptr_eq':
            a = self.h(op['a'], 'weak')
            b = self.h(op['b'], 'weak')
            r = self.call('Weak', None, 'ptr_eq', a['ptr'], b['ptr'])
            self.obs(op, bool(r))
        elif k == 'deref':
            x = self.h(op['h'], 'rc')
            p = self.call('Rc', 'Deref', 'deref', x['ptr'])
            v = E.read(p)
            if v is UNINIT:
                raise UB('uninit-read', 'Deref of handle %s yields a moved-out value' % op['h'])
            self.obs(op, v.id if isinstance(v, TVal) else repr(v))
            pl = self.payloads.get(v.id) if isinstance(v, TVal) else None
            if self.oracles & {'C01', 'C13', 'C12'} and not in_dtor:
                if pl is None or pl.dropped:
                    raise Violation('C13' if 'C13' in self.oracles else ('C12' if 'C12' in self.oracles else 'C01'), 'deref-destroyed', 'Deref of held handle %s reaches a destroyed value' % op['h'],
                                    self.model_values(None))
        elif k == 'try_unwrap':
            x = self.h(op['h'], 'rc')
            del self.handles[op['h']]
            r = self.call('Rc', None, 'try_unwrap', E.read(x['ptr']))
            if r.variant == 'Ok':
                self.obs(op, 'ok')
                v = r.fields[0]
                oi = self.objs[x['obj']]
                oi.unwrapped = True
                self.payloads[v.id].obj = None
                self.handles[op['as']] = dict(kind='val', ptr=self.tmp(v), obj=None)
            else:
                self.obs(op, 'err')
                self.set_handle(op['as'], 'rc', r.fields[0], x['obj'])
        elif k == 'drop_value':
            x = self.h(op['v'], 'val')
            del self.handles[op['v']]
            E.drop_in_place(x['ptr'], 'T', None)
        elif k == 'get_mut':
            x = self.h(op['h'], 'rc')
            r = self.call('Rc', None, 'get_mut', x['ptr'])
            self.obs(op, 'some' if r.variant == 'Some' else 'none')
            if r.variant == 'Some':
                v = E.read(r.fields[0])
                self.obs(op, v.id if isinstance(v, TVal) else repr(v))
        elif k == 'make_mut':
            x = self.h(op['h'], 'rc')
            old = x['obj']
            # while make_mut runs, the caller's handle is being replaced: the old handle is released inside the call
            # (clone branch), so it must not count as "held by the program" for destructors that run in there
            x['obj'] = None
            try:
                p = self.call('Rc', None, 'make_mut', x['ptr'])
            except Panic:
                # the handle now is whatever make_mut left in the caller's variable
                try:
                    nv = E.read(x['ptr'])
                    x['obj'] = self.box2obj.get(self.ptr_of(nv).obj, old)
                    if x['obj'] == old and self.ptr_of(nv).obj != self.objs[old].box:
                        nb = self.ptr_of(nv).obj
                        nidx = max(self.objs) + 1
                        self.objs[nidx] = ObjInfo(nidx, nb)
                        self.box2obj[nb] = nidx
                        pv = E.heap[nb].value.fields[3] if isinstance(E.heap[nb].value, Agg) and len(E.heap[nb].value.fields) > 3 else None
                        if isinstance(pv, TVal):
                            self.objs[nidx].pid = pv.id
                            self.payloads[pv.id].obj = nidx
                        x['obj'] = nidx
                except Exception:
                    x['obj'] = old
                raise
            x['obj'] = old
            v = E.read(p)
            nv = E.read(x['ptr'])
            nb = self.ptr_of(nv).obj
            if nb not in self.box2obj:
                # a fresh allocation: register it as a new object
                nidx = op.get('new_obj', max(self.objs) + 1)
                self.objs[nidx] = ObjInfo(nidx, nb)
                self.objs[nidx].pid = v.id
                self.box2obj[nb] = nidx
                E.heap[nb].meta['label'] = ' (RcBox of object %d)' % nidx
                self.payloads[v.id].obj = nidx
                x['obj'] = nidx
                if v.id == self.objs[old].pid:
                    # the value was stolen from the old allocation: only legitimate when this was the sole strong handle
                    others = self.holders(old)
                    if not (isinstance(others, int) and others == 0):
                        lab = 'C06' if 'C06' in self.oracles else ('C12' if 'C12' in self.oracles else None)
                        if lab:
                            self.require(s_eq(others, 0), lab, 'make-mut-steals-shared-value',
                                         'Rc::make_mut moved the value out of object %d although other strong handles to it exist' % old, subject=[old])
                    else:
                        # sole strong handle: the value may only be moved to a fresh allocation when Weak handles exist; a unique,
                        # Weak-free object is mutated in place (same allocation, same identity, same adoption records)
                        lab = [q for q in ('C06', 'C12', 'C03', 'C08', 'C01', 'C07') if q in self.oracles]
                        if lab:
                            wk = self.weak_holders(old)
                            self.objs[old].unwrapped = True
                            self.obs(op, 'moved')
                            self.require(s_not(s_eq(wk, 0)), lab[0], 'make-mut-moves-unique-value',
                                         'Rc::make_mut moved the value of object %d to a new allocation although the handle was unique and no Weak handle exists' % old, subject=[old])
                            return
                    self.objs[old].unwrapped = True
                self.obs(op, 'moved' if v.id == self.objs[old].pid else 'cloned')
            else:
                self.obs(op, 'inplace')
        elif k == 'into_raw':
            x = self.h(op['h'], 'rc')
            del self.handles[op['h']]
            p = self.call('Rc', None, 'into_raw', E.read(x['ptr']))
            self.handles[op['as']] = dict(kind='raw', ptr=self.tmp(p), obj=x['obj'], counts=True)
        elif k == 'as_ptr':
            x = self.h(op['h'], 'rc')
            p = self.call('Rc', None, 'as_ptr', x['ptr'])
            self.handles[op['as']] = dict(kind='raw', ptr=self.tmp(p), obj=x['obj'], counts=False)
        elif k == 'from_raw':
            x = self.h(op['r'], 'raw')
            del self.handles[op['r']]
            v = self.call('Rc', None, 'from_raw', E.read(x['ptr']))
            tgt = self.obj_of_rc(v)
            if 'C06' in self.oracles or 'C12' in self.oracles or 'C07' in self.oracles:
                self.require(tgt == x['obj'], 'C12', 'from-raw-identity', 'from_raw(into_raw(h)) is not the same object')
            self.set_handle(op['as'], 'rc', v, tgt)
        elif k == 'inc_strong':
            x = self.h(op['r'], 'raw')
            self.call('Rc', None, 'increment_strong_count', E.read(x['ptr']))
            oi = self.objs[x['obj']]
            oi.extra_real.append(self.make_rc(oi))
        elif k == 'dec_strong':
            x = self.h(op['r'], 'raw')
            oi = self.objs[x['obj']]
            if not oi.extra_real:
                raise ScriptError('dec_strong without a matching inc')
            oi.extra_real.pop()
            self.pre_drop(oi.idx)
            try:
                self.call('Rc', None, 'decrement_strong_count', E.read(x['ptr']))
            finally:
                self.post_drop(oi.idx, None)
        elif k == 'w_into_raw':
            x = self.h(op['w'], 'weak')
            del self.handles[op['w']]
            p = self.call('Weak', None, 'into_raw', E.read(x['ptr']))
            self.handles[op['as']] = dict(kind='wraw', ptr=self.tmp(p), obj=x['obj'])
        elif k == 'w_from_raw':
            x = self.h(op['r'], 'wraw')
            del self.handles[op['r']]
            v = self.call('Weak', None, 'from_raw', E.read(x['ptr']))
            self.set_handle(op['as'], 'weak', v, x['obj'])
        elif k == 'on_drop':
            self.ondrop.setdefault(op['obj'], []).extend(op['do'])
        elif k == 'on_drop_panic':
            self.ondrop_panic.add(op['obj'])
        elif k == 'catch':
            dropped_before = set(pid for pid, pl in self.payloads.items() if pl.dropped)
            try:
                for o in op['do']:
                    self.run_op(o, in_dtor)
                    self.after_op(o)
                self.obs(op, 'ok')
                if 'C11' in self.oracles:
                    ran = [pid for pid in self.ondrop_panic if self.payloads[pid].dropped and pid not in dropped_before]
                    if ran:
                        raise Violation('C11', 'panic-swallowed', 'the destructor of value %s panicked but the panic did not reach the caller of drop' % ran[0])
            except Panic as p:
                self.obs(op, 'panicked')
                self.last_panic = p
                if 'C03' in self.oracles and 'C11' not in self.oracles:
                    # the drop was interrupted by a destructor panic: the group must nevertheless have been destroyed in full
                    self.check_collected()
                if 'C11' in self.oracles:
                    if not getattr(p, 'where', '') == 'dtor':
                        v = Violation('C11', 'library-panic', 'a panic other than the scripted destructor panic escaped: %s' % p.msg, self.model_values(None))
                        v.stack = getattr(p, 'stack', [])
                        raise v
                    orp = getattr(self, 'last_orphan', None)
                    if orp is not None and orp[1] is not False:
                        S, cond = orp
                        if cond is True or not self.E.check(z3.Not(cond)):
                            self.interrupted |= set(S)
        elif k == 'set_link' or k == 'unit_links_remove':
            # unit harness for Links::remove: arbitrary entry count / arbitrary amount (no validity assumption)
            x = self.h(op['h'], 'rc')
            t = self.h(op['target'], 'rc')
            ctor = {'Forward': 'forward', 'Backward': 'backward', 'Loopback': 'loopback'}[op['kind']]
            link = self.call('Link', None, ctor, Ptr(self.objs[t['obj']].box))
            lp = Ptr(self.objs[x['obj']].box, (2, 1))
            if k == 'set_link':
                oid, md = E.map_of(lp)
                key = E.map_find(md, link)
                if key is None:
                    raise ScriptError('set_link: no such entry')
                md.vals[key] = self.symvar(op['v']) if isinstance(op['v'], str) else op['v']
            else:
                n = self.symvar(op['n']) if isinstance(op['n'], str) else op['n']
                self.call('Links', None, 'remove', lp, link, n)
        elif k == 'set_strong' or k == 'set_weak':
            # unit harness: arbitrary counter value (no validity assumption)
            x = self.h(op['h'], 'rc')
            v = op['v']
            val = self.symvar(v) if isinstance(v, str) else v
            E.write(Ptr(self.objs[x['obj']].box, (0 if k == 'set_strong' else 1,)), val)
        elif k == 'drop_all_wextras':
            # counter generalisation for Weak::drop (lemma weak-drop-non-last, checked in C04): w-1 drops of a
            # non-last Weak only decrement the weak counter; the last one is executed for real
            oi = self.objs[op['obj']]
            if oi.wextra_real:
                while oi.wextra_real:
                    E.drop_in_place(self.tmp(oi.wextra_real.pop()), WEAK, None)
            elif is_sym(oi.wextra):
                if E.branch(z3.UGT(oi.wextra, 0)):
                    w = E.read(Ptr(oi.box, (1,)))
                    E.write(Ptr(oi.box, (1,)), s_sub(w, s_sub(oi.wextra, 1)))
                    oi.wextra = 0
                    E.drop_in_place(self.tmp(self.make_weak(oi)), WEAK, None)
                else:
                    oi.wextra = 0
        elif k in ('cost_clone', 'cost_drop'):
            self.run_op(dict(op, op=k[5:], cost=True), in_dtor)
        elif k == 'drop_any':
            x = self.h(op['h'])
            if x['kind'] == 'val':
                self.run_op({'op': 'drop_value', 'v': op['h']})
            else:
                self.run_op({'op': 'drop', 'h': op['h']})
        elif k == 'clone_mode':
            self.clone_unlinked = (op['mode'] == 'unlinked')
            self.clone_panics = (op['mode'] == 'panic')
        elif k == 'drop_if':
            if op['h'] in self.handles:
                self.run_op({'op': 'drop', 'h': op['h']})
        elif k in ('upgrade_if', 'wdrop_if'):
            # only if the Weak exists (it was made by a destructor that may not have run on this path)
            if op['w'] in self.handles:
                self.run_op({'op': k[:-3], 'w': op['w']})
        elif k == 'note':
            pass
        else:
            raise ScriptError('unknown op %s' % k)
        if op.get('cost'):
            c1 = self.cost_snapshot()
            d = [y - x - e for x, y, e in zip(cost_before, c1, self.excluded)]
            self.trace.append(['cost', k, d])
            if 'C14' in self.oracles:
                if d[1] or d[2]:
                    raise Violation('C14', 'traced', '%s of a handle to an object without recorded adoptions ran a reachability trace (%d cycle_refs, %d orphaned_cycle calls)' % (k, d[1], d[2]), self.model_values(None))
                if d[0]:
                    raise Violation('C14', 'allocated', '%s of a handle to an object without recorded adoptions performed %d heap allocation(s)' % (k, d[0]), self.model_values(None))

    def conc(self, v):
        self._raw = v
        if is_sym(v):
            return 'sym'
        return v

    def payload_in(self, idx):
        oi = self.objs[idx]
        return self.payloads[oi.pid]

    def make_rc(self, oi):
        """materialise a handle value to object oi (one of the symbolic extras)"""
        return Agg('Rc', None, (Ptr(oi.box), Agg('PhantomData')))

    def make_weak(self, oi):
        return Agg('Weak', None, (Ptr(oi.box), Agg('PhantomData')))

    def is_dead_handle(self, x):
        oi = self.objs.get(x['obj'])
        return oi is None or oi.destroyed or oi.unwrapped

    def check_upgrade(self, x, got_some, hv):
        if 'C05' not in self.oracles:
            return
        if x['obj'] is None:
            if got_some:
                raise Violation('C05', 'upgrade-dangling', 'upgrade of Weak::new() returned a handle')
            return
        oi = self.objs[x['obj']]
        if oi.idx in self.interrupted and not oi.destroyed:
            # member of a group whose teardown was interrupted by a panic: must keep reporting dead (C11)
            if got_some:
                raise Violation('C11', 'alive-after-interrupted-teardown', 'after a destructor panic interrupted the teardown of its group, Weak::upgrade returned a handle to member %d' % oi.idx,
                                self.model_values(None))
            return
        if self.dtor_stack and not (oi.destroyed or oi.unwrapped):
            # inside a destructor the target may be a doomed peer. Black-box rule: a handle that upgrade returns
            # must keep its object alive for as long as it is held (checked when a destructor starts, see
            # on_destroy); None is only acceptable if the object is destroyed before the operation returns.
            if got_some:
                if self.obj_of_rc(hv) != oi.idx:
                    raise Violation('C05', 'upgrade-identity', 'upgraded handle points to a different object')
            else:
                self.deferred.append((oi.idx, False, self.dtor_stack[-1]))
            return
        dead = oi.destroyed or oi.unwrapped
        if not got_some and not dead and 'C11' in self.oracles and getattr(self, 'last_panic', None) is not None:
            # after an interrupted teardown, members that were marked dead but whose destructor never ran may be
            # leaked (C11 allows the leak) as long as the program cannot reach them
            r = self.reach_formula(oi.idx)
            if r is False or (r is not True and not self.E.check(r)):
                return
        if got_some and dead:
            raise Violation('C05', 'upgrade-resurrects', 'Weak::upgrade returned a handle to destroyed object %d' % oi.idx,
                            self.model_values(None))
        if not got_some and not dead:
            raise Violation('C05', 'upgrade-fails-live', 'Weak::upgrade returned None for live object %d' % oi.idx,
                            self.model_values(None))
        if got_some:
            if self.obj_of_rc(hv) != oi.idx:
                raise Violation('C05', 'upgrade-identity', 'upgraded handle points to a different object')

    # ------------------------------------------------------------ oracle hooks around ops
    def pre_drop(self, idx):
        self._pre_destroyed = set(i for i, o in self.objs.items() if o.destroyed)
        self._orphan = None
        orp = None
        if self.oracles & {'C03', 'C05', 'C10', 'C11'} and not self.stale and idx in self.objs:
            orp = self.orphan_condition(idx)
        if 'C03' in self.oracles:
            self._orphan = orp
        self.orphan_stack.append(orp if orp is not None else (set(), False))
        if len(self.orphan_stack) == 1:
            self.last_orphan = orp

    def alive(self, i):
        o = self.objs[i]
        return not (o.destroyed or o.unwrapped or o.freed)

    def orphan_condition(self, x):
        """(S, cond): S = objects reachable from x through recorded adoptions; cond = after one handle to x is
        gone, every strong handle to every member of S is a recorded adoption held by a member of S"""
        if not self.alive(x):
            return None
        S = {x}
        changed = True
        while changed:
            changed = False
            for (i, j), n in self.rec.items():
                if n > 0 and i in S and j not in S and self.alive(j):
                    S.add(j)
                    changed = True
        terms = []
        for y in S:
            # handles to y held by the values of members of S, per owner, must each be covered by a record of that owner
            # (a same-handle Loopback record of y covers a handle y's own value holds); every other strong handle to y
            # (named, raw, extra e_y, held by a value outside S or by a moved-out value) makes y externally owned.
            # The ledger already reflects the removal of the handle that is being dropped.
            stored = {}
            outside = 0
            for pid, pl in self.payloads.items():
                k = sum(1 for hv, tgt in pl.strong if tgt == y)
                if not k:
                    continue
                if pl.obj is not None and pl.obj in S and self.alive(pl.obj):
                    stored[pl.obj] = stored.get(pl.obj, 0) + k
                else:
                    outside += k
            for i, k in stored.items():
                cover = self.rec.get((i, y), 0) + (self.rec_same.get(y, 0) if i == y else 0)
                if k > cover:
                    terms.append(False)
            ext = self.holders(y)
            inside_handles = sum(stored.values())
            # holders(y) = named + raw + extras + all payload handles: externally owned iff holders(y) != handles stored inside S
            if outside:
                terms.append(False)
            terms.append(s_eq(ext, inside_handles))
        if any(t is False for t in terms):
            return (S, False)
        ts = [t for t in terms if t is not True]
        cond = True if not ts else (ts[0] if len(ts) == 1 else z3.And(*ts))
        return (S, cond)

    def post_drop(self, idx, before):
        self.orphan_stack.pop()

    def after_op(self, op):
        if self.deferred and not self.dtor_stack:
            df, self.deferred = self.deferred, []
            for (j, got_some, where) in df:
                dead = self.objs[j].destroyed or self.objs[j].unwrapped
                if got_some and dead:
                    raise Violation('C05', 'upgrade-resurrects-dying',
                                    'inside the destructor of value %s, Weak::upgrade returned a handle to object %d, which the same operation destroyed' % (where, j),
                                    self.model_values(None))
                if not got_some and not dead:
                    raise Violation('C05', 'upgrade-fails-live',
                                    'inside the destructor of value %s, Weak::upgrade returned None for object %d, which is still alive after the operation' % (where, j),
                                    self.model_values(None))
        if 'C06' in self.oracles and self.opts.get('count_after_each', True):
            self.check_counts()
        if 'C08' in self.oracles:
            self.check_tables()
        if 'C03' in self.oracles and op['op'] in ('drop', 'drop_extra', 'dec_strong', 'upgrade', 'drop_via_raw'):
            self.check_collected()

    def check_counts(self):
        named = {}
        for name, x in self.handles.items():
            if x['kind'] == 'rc' or (x['kind'] == 'raw' and x.get('counts', True)):
                named[x['obj']] = named.get(x['obj'], 0) + 1
        for idx, oi in self.objs.items():
            if oi.destroyed and not oi.unwrapped and not self.dtor_stack:
                # the value is gone although strong handles exist that the program itself holds (directly, or inside the
                # value of an object it holds directly): no value of strong_count can equal the number of handles any more
                n = named.get(idx, 0) + len(oi.extra_real)
                msg = ('after op %d the program holds strong handle(s) to object %d whose value has been destroyed: '
                       'the strong count (0 or the dead mark) no longer equals the number of strong handles' % (self.op_index, idx))
                for pid, pl in self.payloads.items():
                    po = self.objs.get(pl.obj) if pl.obj is not None else None
                    k = sum(1 for hv, tgt in pl.strong if tgt == idx)
                    if not k or po is None or po.destroyed:
                        continue
                    if named.get(pl.obj, 0) > 0 or po.extra_real:
                        n += k
                    elif is_sym(po.extra):
                        # the owner is held through its symbolic extra handles only: a violation for every e_owner >= 1
                        self.require(s_eq(po.extra, 0), 'C06', 'handles-outlive-value', msg + ' (through the value of object %d, which the program holds)' % pl.obj)
                if n > 0:
                    raise Violation('C06', 'handles-outlive-value', msg, self.model_values(None))
                if is_sym(oi.extra):
                    self.require(s_eq(oi.extra, 0), 'C06', 'handles-outlive-value', msg)
            if oi.destroyed or oi.unwrapped or oi.freed:
                continue
            s = self.strong(idx)
            self.require(s_eq(s, self.holders(idx)), 'C06', 'strong-exact',
                         'after op %d the strong count of live object %d differs from the number of existing strong handles' % (self.op_index, idx))
            w = self.weakc(idx)
            self.require(s_eq(w, s_add(self.weak_holders(idx), 1)), 'C06', 'weak-exact',
                         'after op %d the weak count of live object %d differs from the number of existing Weak handles (+1)' % (self.op_index, idx))

    def expected_tables(self):
        """ledger view of the recorded adoption graph restricted to live objects"""
        exp = {i: {} for i in self.objs}
        for (i, j), n in self.rec.items():
            if n <= 0:
                continue
            if self.objs[i].destroyed or self.objs[j].destroyed or self.objs[i].unwrapped or self.objs[j].unwrapped:
                continue
            exp[i][('Forward', j)] = exp[i].get(('Forward', j), 0) + n
            exp[j][('Backward', i)] = exp[j].get(('Backward', i), 0) + n
        for i, n in self.rec_same.items():
            if n > 0 and not self.objs[i].destroyed and not self.objs[i].unwrapped:
                exp[i][('Loopback', i)] = n
        return exp

    def check_tables(self):
        exp = self.expected_tables()
        for idx, oi in self.objs.items():
            if oi.destroyed or oi.unwrapped or oi.freed:
                continue
            t = self.table(idx)
            if t is None or t == 'freed':
                raise Violation('C08', 'table-missing', 'live object %d has no bookkeeping table' % idx)
            for key, cnt in t.items():
                kind, tgt = key
                if not isinstance(tgt, int):
                    raise Violation('C08', 'names-unknown', 'table of object %d names an unknown allocation' % idx)
                to = self.objs[tgt]
                if to.destroyed or to.freed or to.unwrapped:
                    raise Violation('C08', 'names-dead',
                                    'table of live object %d keeps a %s record naming destroyed object %d' % (idx, kind, tgt),
                                    self.model_values(None))
                self.require(s_not(s_eq(cnt, 0)), 'C08', 'zero-entry', 'table of object %d has a zero-count %s(%d) entry' % (idx, kind, tgt))
            if self.opts.get('tables_exact', True) and not self.stale:
                keys = set(t) | set(exp[idx])
                for key in keys:
                    a = t.get(key, 0)
                    b = exp[idx].get(key, 0)
                    self.require(s_eq(a, b), 'C08', 'table-exact',
                                 'after op %d: table of object %d has %s=%s, the calls imply %s' % (self.op_index, idx, key, a, b), subject=[idx])

    def check_collected(self):
        """C03: after a drop, every group that became orphaned must be gone; every object with no strong handle too"""
        live = [i for i, o in self.objs.items() if not o.destroyed and not o.unwrapped and not o.freed and i not in self.interrupted]
        for i in live:
            hold = self.holders(i)
            self.require(s_not(s_eq(hold, 0)), 'C03', 'zero-count-not-destroyed',
                         'object %d has no strong handle left after op %d but was not destroyed' % (i, self.op_index), subject=[i])
        orp = getattr(self, '_orphan', None)
        self._orphan = None
        self.orphan_check(orp, 'after op %d' % self.op_index)
        if not self.dtor_stack:
            pend, self.nested_orphans = self.nested_orphans, []
            for (norp, when) in pend:
                self.orphan_check(norp, when)

    def orphan_check(self, orp, when):
        """C03 by its letter: `orp` = (S, cond) computed for the object X of one drop (top-level or of a handle stored in a value
        that is being destroyed) on the ledger right after that handle was removed: S = objects reachable from X through
        recorded adoptions, cond = every strong handle to every member is a recorded adoption held inside S. If that held when
        the handle went away, and the surviving members are still orphaned when the drop has returned (a destructor may have
        taken new handles re-entrantly), the survivors are a violation."""
        if orp is None or self.stale:
            return
        S, cond0 = orp
        if cond0 is False:
            return
        survivors = [y for y in S if self.alive(y) and y not in self.interrupted]
        done = set()
        for y in survivors:
            if y in done:
                continue
            r = self.orphan_condition(y)
            if r is None:
                continue
            S2, cond = r
            done |= S2
            if cond is False:
                continue
            both = cond if cond0 is True else (cond0 if cond is True else z3.And(cond0, cond))
            self.subject = sorted(S2)
            msg = '%s the adopted group %s, orphaned by this drop (every strong handle to its members is a recorded adoption held inside the group), was not destroyed in full: %s survive' % (when, sorted(S), sorted(S2))
            if both is True:
                raise Violation('C03', 'orphan-not-collected', msg, self.model_values(None))
            self.require(z3.Not(both), 'C03', 'orphan-not-collected', msg)

    def at_end(self):
        if self.opts.get('expect_all_freed'):
            # C04 speaks about destroyed objects only: their block (once no Weak remains) and their bookkeeping
            # must be released; containers that belong to objects which are still alive are not leaks
            owned = set()
            for i, oi in self.objs.items():
                o = self.E.heap[oi.box]
                if o.live and not oi.destroyed and not oi.unwrapped:
                    owned.add(oi.box)
                    l = self.field(i, 2)
                    if isinstance(l, Agg) and len(l.fields) > 1 and isinstance(l.fields[1], Agg):
                        own = l.fields[1].fields[0]
                        if isinstance(own, Own):
                            owned.add(own.obj)
            for oid, o in self.E.heap.items():
                if o.kind == 'map' and not getattr(o.value, 'ever_allocated', False):
                    continue      # a table that never held an entry owns no heap memory
                if o.kind == 'vec' and not o.meta.get('cap', 0):
                    continue
                if o.live and o.kind in ('box', 'heap', 'map', 'vec') and oid not in owned:
                    what = self.box2obj.get(oid)
                    if what is not None:
                        c = self.weak_holders(what)
                        if not (isinstance(c, int) and c == 0):
                            continue     # Weak handles still exist (history did not drop them): the bare block may stay
                        self.subject = [what]
                    raise Violation('C04', 'leak', 'heap object #%d (%s%s) is still allocated although its object was destroyed and no Weak handle to it remains'
                                    % (oid, o.kind, o.meta.get('label', '') if what is None else ' RcBox of object %d' % what),
                                    self.model_values(None))

    def path_summary(self):
        """per-op observable outcome used by the layout-independence product check (C09)"""
        out = []
        cur = []
        for t in self.trace:
            cur.append(tuple(t) if t[0] != 'ret' else ('ret', t[1], str(t[2])))
        return tuple(sorted(x for x in cur if x[0] == 'dtor')), tuple(x for x in cur if x[0] != 'dtor')


def run_path(P, script, decisions, layout_factory, sym, oracles, opts=None):
    """run one path; returns (scenario, outcome) where outcome is
    ('ok'|'panic'|'abort', None) / ('violation', Violation) / ('ub', UB) / ('infeasible', None)"""
    layout = layout_factory() if layout_factory else None
    sc = Scenario(P, script, decisions=decisions, layout=layout, sym=sym, oracles=oracles, opts=opts)
    try:
        st = sc.run()
        return sc, (st, None)
    except Violation as v:
        return sc, ('violation', v)
    except UB as u:
        return sc, ('ub', u)
    except PathInfeasible:
        return sc, ('infeasible', None)


def explore(P, script, layout_factory=None, sym=False, oracles=(), opts=None, max_paths=20000):
    """depth-first exploration of all paths of a script; yields (scenario, outcome)"""
    pending = [[]]
    n = 0
    while pending:
        dec = pending.pop()
        sc, out = run_path(P, script, dec, layout_factory, sym, oracles, opts)
        pending.extend(sc.E.new_alternatives)
        n += 1
        yield sc, out
        if n >= max_paths:
            raise Unsupported('path budget exhausted (%d paths) for one script' % max_paths)
