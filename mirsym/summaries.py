"""Summaries of the external callees (core / alloc / hashbrown / log).

Every function here is part of the trusted base of every claim; the evidence
files list the ones a run used.  Signature: f(engine, args, info) -> value.
"""
import z3
from values import *
import interp as I
from interp import Unsupported, Panic, Abort, UB, MapData, Obj, ty_args, type_head_name

SUMMARIES = {}


def summ(*names):
    def deco(f):
        for n in names:
            if '*' in n.replace('*mut', '').replace('*const', ''):
                SUMMARIES[n] = f
            else:
                SUMMARIES[I.norm_callee(n)[0]] = f
        return f
    return deco


# ------------------------------------------------------------------ identity-like
@summ('NonNull::as_ptr', 'NonNull::new_unchecked', 'NonNull::cast', 'NonNull::as_non_null_ptr',
      'core::ptr::mut_ptr::<impl *mut T>::cast', 'core::ptr::mut_ptr::<impl *mut u8>::cast',
      'core::ptr::mut_ptr::<impl *mut MaybeUninit>::cast', 'core::ptr::const_ptr::<impl *const T>::cast',
      'core::ptr::const_ptr::<impl *const MaybeUninit>::cast',
      'core::ptr::const_ptr::<impl *const T>::cast_mut', 'core::ptr::mut_ptr::<impl *mut T>::cast_const',
      '<&mut RcBox<T> as Into<NonNull<RcBox<T>>>>::into', 'Box::leak', 'MaybeUninit::as_ptr', 'MaybeUninit::as_mut_ptr',
      'ManuallyDrop::new', 'Pin::new_unchecked', 'MaybeUninit::new', 'Cell::new', 'NonZero::get',
      '<ManuallyDrop as Deref>::deref', '<ManuallyDrop as DerefMut>::deref_mut',
      'core::ptr::mut_ptr::<impl *mut u8>::with_metadata_of', 'ManuallyDrop::into_inner',
      'Pin::into_inner_unchecked', 'NonNull::from', '<NonNull as From>::from',
      'core::ptr::mut_ptr::<impl *mut RcBox>::cast', 'core::ptr::const_ptr::<impl *const RcBox>::cast',
      'core::ptr::const_ptr::<impl *const u8>::cast', 'core::ptr::const_ptr::<impl *const T>::cast_const',
      'core::convert::identity', 'NonNull::from_ref', 'NonNull::from_mut')
def s_identity(E, a, info):
    return a[0]


@summ('NonNull::as_ref', 'NonNull::as_mut')
def s_nonnull_as_ref(E, a, info):
    # as_ref/as_mut take &self / &mut self: a[0] points at the NonNull
    v = E.read(a[0])
    if v is DANGLING:
        raise UB('dangling-deref', 'reference created from the dangling sentinel')
    if isinstance(v, Ptr) and not E.heap[v.obj].live:
        raise UB('use-after-free', 'reference created into released block #%d' % v.obj)
    return v


def _is_place_of_ptr(E, p):
    try:
        v = E.read(p)
    except UB:
        raise
    return isinstance(v, (Ptr, Dangling))


@summ('NonNull::new')
def s_nonnull_new(E, a, info):
    if a[0] == 0:
        return NONE
    return some(a[0])


# ------------------------------------------------------------------ Cell / RefCell
@summ('Cell::get')
def s_cell_get(E, a, info):
    v = E.read(a[0])
    if v is UNINIT:
        raise UB('uninit-read', 'Cell::get of uninitialised counter')
    return v


@summ('Cell::set')
def s_cell_set(E, a, info):
    E.write(a[0], a[1])
    return UNIT


@summ('Cell::replace')
def s_cell_replace(E, a, info):
    old = E.read(a[0])
    E.write(a[0], a[1])
    return old


@summ('RefCell::new')
def s_refcell_new(E, a, info):
    return Agg('RefCell', None, (0, a[0]))


def _refcell(E, p):
    v = E.read(p)
    if v is UNINIT or not isinstance(v, Agg) or v.name != 'RefCell':
        if v is UNINIT:
            raise UB('uninit-read', 'borrow of a moved-out RefCell (links table already taken)')
        raise Unsupported('borrow of %r' % (v,))
    return v


@summ('RefCell::borrow')
def s_borrow(E, a, info):
    v = _refcell(E, a[0])
    flag = v.fields[0]
    if flag < 0:
        raise Panic('already mutably borrowed: BorrowError', 'RefCell::borrow')
    E.write(a[0].field(0), flag + 1)
    return Agg('Ref', None, (a[0],))


@summ('RefCell::borrow_mut')
def s_borrow_mut(E, a, info):
    v = _refcell(E, a[0])
    flag = v.fields[0]
    if flag != 0:
        raise Panic('already borrowed: BorrowMutError', 'RefCell::borrow_mut')
    E.write(a[0].field(0), -1)
    return Agg('RefMut', None, (a[0],))


@summ('RefCell::try_borrow')
def s_try_borrow(E, a, info):
    v = _refcell(E, a[0])
    flag = v.fields[0]
    if flag < 0:
        return Agg('Result', 'Err', (Agg('BorrowError'),))
    E.write(a[0].field(0), flag + 1)
    return Agg('Result', 'Ok', (Agg('Ref', None, (a[0],)),))


@summ('RefCell::try_borrow_mut')
def s_try_borrow_mut(E, a, info):
    v = _refcell(E, a[0])
    flag = v.fields[0]
    if flag != 0:
        return Agg('Result', 'Err', (Agg('BorrowMutError'),))
    E.write(a[0].field(0), -1)
    return Agg('Result', 'Ok', (Agg('RefMut', None, (a[0],)),))


@summ('<Ref as Deref>::deref', '<RefMut as Deref>::deref', '<RefMut as DerefMut>::deref_mut')
def s_guard_deref(E, a, info):
    g = E.read(a[0])
    return g.fields[0].field(1)


@summ('RefCell::as_ptr', 'RefCell::get_mut')
def s_refcell_as_ptr(E, a, info):
    return a[0].field(1)


@summ('RefCell::into_inner')
def s_refcell_into_inner(E, a, info):
    return a[0].fields[1]


# ------------------------------------------------------------------ mem / ptr
@summ('core::mem::drop')
def s_mem_drop(E, a, info):
    E.drop_value(a[0], info['gen'][0])
    return UNIT


@summ('core::mem::forget')
def s_forget(E, a, info):
    return UNIT


@summ('core::mem::replace')
def s_replace(E, a, info):
    old = E.read(a[0])
    E.write(a[0], a[1])
    return old


@summ('core::mem::take')
def s_take(E, a, info):
    raise Unsupported('mem::take')


@summ('core::mem::swap')
def s_swap(E, a, info):
    x = E.read(a[0])
    y = E.read(a[1])
    E.write(a[0], y)
    E.write(a[1], x)
    return UNIT


@summ('MaybeUninit::uninit')
def s_uninit(E, a, info):
    return UNINIT


@summ('MaybeUninit::assume_init')
def s_assume_init(E, a, info):
    if a[0] is UNINIT:
        raise UB('uninit-read', 'assume_init of a moved-out/uninitialised MaybeUninit')
    return a[0]


@summ('MaybeUninit::assume_init_ref', 'MaybeUninit::assume_init_mut')
def s_assume_init_ref(E, a, info):
    v = E.read(a[0])
    if v is UNINIT:
        raise UB('uninit-read', 'assume_init_ref of a moved-out MaybeUninit')
    return a[0]


@summ('MaybeUninit::assume_init_drop')
def s_assume_init_drop(E, a, info):
    v = E.read(a[0])
    if v is UNINIT:
        raise UB('uninit-read', 'assume_init_drop of a moved-out MaybeUninit')
    E.drop_in_place(a[0], ty_args(info['self_ty'])[0] if info['self_ty'] else 'T', None)
    return UNIT


@summ('MaybeUninit::assume_init_read')
def s_assume_init_read(E, a, info):
    v = E.read(a[0])
    if v is UNINIT:
        raise UB('uninit-read', 'assume_init_read of a moved-out MaybeUninit')
    return v


@summ('MaybeUninit::write')
def s_mu_write(E, a, info):
    E.write(a[0], a[1])
    return a[0]


@summ('core::ptr::read', 'core::ptr::const_ptr::<impl *const T>::read', 'core::ptr::mut_ptr::<impl *mut T>::read')
def s_ptr_read(E, a, info):
    v = E.read(a[0])
    if v is UNINIT:
        raise UB('uninit-read', 'ptr::read of a moved-out value')
    return v


@summ('core::ptr::write', 'core::ptr::mut_ptr::<impl *mut T>::write')
def s_ptr_write(E, a, info):
    E.write(a[0], a[1])
    return UNIT


@summ('core::ptr::drop_in_place', 'core::ptr::mut_ptr::<impl *mut T>::drop_in_place', 'drop_in_place')
def s_drop_in_place(E, a, info):
    ty = info['gen'][0] if info['gen'] else 'T'
    v = E.read(a[0])
    if v is UNINIT:
        raise UB('uninit-read', 'drop_in_place of a moved-out value')
    E.drop_in_place(a[0], ty, None)
    return UNIT


@summ('core::ptr::eq')
def s_ptr_eq(E, a, info):
    return a[0] == a[1]


@summ('core::ptr::mut_ptr::<impl *mut T>::copy_from_nonoverlapping')
def s_copy_from(E, a, info):
    v = E.read(a[1])
    if v is UNINIT:
        raise UB('uninit-read', 'copy from moved-out value')
    E.write(a[0], v)
    return UNIT


@summ('core::ptr::copy_nonoverlapping')
def s_copy_nonoverlapping(E, a, info):
    v = E.read(a[0])
    E.write(a[1], v)
    return UNIT


@summ('core::ptr::mut_ptr::<impl *mut u8>::offset', 'core::ptr::const_ptr::<impl *const u8>::offset',
      'core::ptr::mut_ptr::<impl *mut u8>::byte_offset', 'core::ptr::mut_ptr::<impl *mut T>::byte_offset',
      'core::ptr::const_ptr::<impl *const T>::byte_offset', 'core::ptr::mut_ptr::<impl *mut u8>::sub',
      'core::ptr::mut_ptr::<impl *mut T>::byte_sub', 'core::ptr::const_ptr::<impl *const T>::byte_sub',
      'core::ptr::mut_ptr::<impl *mut u8>::byte_sub')
def s_offset(E, a, info):
    p, off = a
    if not isinstance(off, OffsetTok):
        raise Unsupported('offset by %r' % (off,))
    if getattr(off, 'tag', None):
        raise UB('layout-assumption', 'a field offset computed for %s is applied to a pointer into an RcBox<T>: the two layouts differ when T is over-aligned' % off.tag)
    sign = off.sign
    if info['key'].endswith('sub'):
        sign = -sign
    if not isinstance(p, Ptr):
        raise Unsupported('offset of %r' % (p,))
    n = len(off.path)
    if sign < 0:
        if n == 0:
            return p
        if p.path[-n:] != off.path:
            raise UB('bad-offset', 'pointer %r moved back by the offset of %r' % (p, off.path))
        return Ptr(p.obj, p.path[:-n])
    return Ptr(p.obj, p.path + off.path)


@summ('offset_of', 'core::intrinsics::offset_of', 'core::mem::offset_of')
def s_offset_of(E, a, info):
    ty = info['gen'][0] if info['gen'] else '?'
    field = a[1] if len(a) > 1 else a[0]
    tag = None if ty.replace(' ', '') in ('RcBox<T>', 'rc::RcBox<T>') else ty
    return OffsetTok((field,), 1, tag)


@summ('core::mem::size_of_val', 'core::mem::size_of', 'core::mem::align_of_val', 'core::mem::align_of')
def s_size(E, a, info):
    gen = [g.replace(' ', '') for g in (info.get('gen') or [])]
    if info['key'].endswith('size_of') and gen and 'RcBox<' in gen[0] and gen[0] not in ('RcBox<T>', 'rc::RcBox<T>'):
        return OffsetTok(('sizeof',), 1, gen[0])
    return Opaque('size')


@summ('core::intrinsics::abort', 'abort', 'std::process::abort', 'core::intrinsics::breakpoint')
def s_abort(E, a, info):
    raise Abort('abort()')


@summ('panic_fmt', 'panic', 'assert_failed', 'panic_display', 'unreachable_display', 'panic_str', 'core::panicking::panic_display',
      'core::panicking::assert_failed', 'core::panicking::panic', 'core::panicking::panic_fmt',
      'core::panicking::unreachable_display', 'core::panicking::panic_explicit', 'std::rt::begin_panic',
      'core::panicking::panic_nounwind')
def s_panic(E, a, info):
    raise Panic('explicit panic: ' + info['key'], info['key'])


@summ('core::hint::unreachable_unchecked', 'core::intrinsics::unreachable')
def s_unreachable(E, a, info):
    raise UB('unreachable', 'unreachable_unchecked reached')


@summ('core::hint::assert_unchecked', 'core::intrinsics::assume')
def s_assume(E, a, info):
    if not E.branch(a[0]):
        raise UB('assume-violated', 'assert_unchecked(false)')
    return UNIT


# ------------------------------------------------------------------ allocation
@summ('Layout::new', 'Layout::for_value', 'Layout::for_value_raw', 'Layout::pad_to_align', 'Layout::size',
      'Layout::align')
def s_layout(E, a, info):
    key = info['key']
    gen = [g.replace(' ', '') for g in (info.get('gen') or [])]
    if key == 'Layout::new' and gen and 'RcBox<' in gen[0] and gen[0] not in ('RcBox<T>', 'rc::RcBox<T>'):
        # the layout of a *different* instantiation of the allocation header: sizes / offsets taken from it are only
        # valid for that instantiation
        return Opaque('layoutof:' + gen[0])
    if a and isinstance(a[0], Ptr):
        try:
            a = [E.read(a[0])] + list(a[1:])
        except Exception:
            pass
    if key in ('Layout::size', 'Layout::align') and a and isinstance(a[0], Opaque) and str(a[0].what).startswith('layoutof:'):
        return OffsetTok(('sizeof',), 1, a[0].what[9:])
    if key == 'Layout::pad_to_align' and a and isinstance(a[0], Opaque) and str(a[0].what).startswith('layoutof:'):
        return a[0]
    return Opaque('layout')


@summ('Layout::extend')
def s_layout_extend(E, a, info):
    return Agg('Result', 'Ok', (tup(Opaque('layout'), Opaque('offset')),))


@summ('<Layout as PartialEq>::eq')
def s_layout_eq(E, a, info):
    return True


@summ('<Global as Allocator>::allocate', '<Global as Allocator>::allocate_zeroed', '<A as Allocator>::allocate')
def s_allocate(E, a, info):
    o = E.new_obj('heap', UNINIT, {'label': ' (Global.allocate)'})
    E.alloc_events += 1
    E.events.append(('alloc', 'heap', o))
    return Agg('Result', 'Ok', (Ptr(o),))


@summ('<Global as Allocator>::deallocate', '<A as Allocator>::deallocate')
def s_deallocate(E, a, info):
    p = a[1]
    if not isinstance(p, Ptr):
        raise Unsupported('deallocate of %r' % (p,))
    o = E.heap[p.obj]
    if p.path != ():
        raise UB('bad-free', 'deallocate of interior pointer %r' % (p,))
    if o.kind not in ('heap', 'box'):
        raise UB('bad-free', 'deallocate of %s object' % o.kind)
    if not o.live:
        raise UB('double-free', 'allocation #%d%s released twice' % (p.obj, o.meta.get('label', '')))
    o.live = False
    E.events.append(('dealloc', o.kind, p.obj))
    if E.hooks is not None:
        E.hooks.on_dealloc(E, p.obj)
    return UNIT


@summ('Box::new')
def s_box_new(E, a, info):
    o = E.new_obj('box', a[0], {'label': ' (Box::new)'})
    E.alloc_events += 1
    E.events.append(('alloc', 'box', o))
    return Ptr(o)


@summ('Box::new_uninit')
def s_box_new_uninit(E, a, info):
    o = E.new_obj('box', UNINIT, {'label': ' (Box::new_uninit)'})
    E.alloc_events += 1
    E.events.append(('alloc', 'box', o))
    return Ptr(o)


@summ('Box::into_raw_with_allocator')
def s_box_into_raw(E, a, info):
    return tup(a[0], Agg('Global'))


@summ('Box::into_raw', 'Box::from_raw', 'Box::assume_init')
def s_box_id(E, a, info):
    return a[0]


@summ('alloc::boxed::box_assume_init_into_vec_unsafe')
def s_box_into_vec(E, a, info):
    p = a[0]
    o = E.obj_of(p)
    arr = o.value
    if not isinstance(arr, Agg):
        raise Unsupported('vec! of %r' % (arr,))
    # the box allocation becomes the vector's buffer
    o.kind = 'vec'
    o.value = list(arr.fields)
    o.meta['cap'] = len(arr.fields)
    return Own(p.obj)


@summ('Vec::new')
def s_vec_new(E, a, info):
    o = E.new_obj('vec', [], {'cap': 0, 'label': ' (Vec)'})
    return Own(o)


@summ('Vec::with_capacity')
def s_vec_with_capacity(E, a, info):
    o = E.new_obj('vec', [], {'cap': a[0] if isinstance(a[0], int) else 4, 'label': ' (Vec)'})
    E.alloc_events += 1
    E.events.append(('alloc', 'vec', o))
    return Own(o)


def _vec(E, p):
    v = E.read(p) if isinstance(p, Ptr) else p
    if not isinstance(v, Own):
        raise Unsupported('expected Vec, got %r' % (v,))
    o = E.heap[v.obj]
    if not o.live:
        raise UB('use-after-free', 'use of dropped Vec')
    return v.obj, o


@summ('Vec::push')
def s_vec_push(E, a, info):
    oid, o = _vec(E, a[0])
    E.work += 1
    if len(o.value) >= o.meta.get('cap', 0):
        o.meta['cap'] = max(4, 2 * o.meta.get('cap', 0))
        E.alloc_events += 1
        E.events.append(('alloc', 'vec-grow', oid))
    o.value.append(a[1])
    return UNIT


@summ('Vec::pop')
def s_vec_pop(E, a, info):
    oid, o = _vec(E, a[0])
    E.work += 1
    if not o.value:
        return NONE
    return some(o.value.pop())


@summ('Vec::remove')
def s_vec_remove(E, a, info):
    oid, o = _vec(E, a[0])
    i = a[1]
    if is_sym(i):
        raise Unsupported('symbolic Vec index')
    if i >= len(o.value):
        raise Panic('removal index (is %d) should be < len (is %d)' % (i, len(o.value)), 'Vec::remove')
    E.work += len(o.value) - i          # elements shifted
    return o.value.pop(i)


@summ('Vec::swap_remove')
def s_vec_swap_remove(E, a, info):
    oid, o = _vec(E, a[0])
    i = a[1]
    if i >= len(o.value):
        raise Panic('swap_remove index out of bounds', 'Vec::swap_remove')
    v = o.value[i]
    o.value[i] = o.value[-1]
    o.value.pop()
    E.work += 1
    return v


@summ('Vec::insert')
def s_vec_insert(E, a, info):
    oid, o = _vec(E, a[0])
    i = a[1]
    if i > len(o.value):
        raise Panic('insertion index out of bounds', 'Vec::insert')
    if len(o.value) >= o.meta.get('cap', 0):
        o.meta['cap'] = max(4, 2 * o.meta.get('cap', 0))
        E.alloc_events += 1
        E.events.append(('alloc', 'vec-grow', oid))
    E.work += len(o.value) - i + 1
    o.value.insert(i, a[2])
    return UNIT


@summ('Vec::contains')
def s_vec_contains(E, a, info):
    oid, o = _vec(E, a[0])
    key = E.read(a[1])
    E.work += len(o.value)
    return any(E.key_eq(x, key) for x in o.value)


@summ('Vec::clear')
def s_vec_clear(E, a, info):
    oid, o = _vec(E, a[0])
    o.value[:] = []
    return UNIT


@summ('Vec::truncate')
def s_vec_truncate(E, a, info):
    oid, o = _vec(E, a[0])
    del o.value[a[1]:]
    return UNIT


@summ('VecDeque::new')
def s_vecdeque_new(E, a, info):
    o = E.new_obj('vec', [], {'cap': 0, 'label': ' (VecDeque)'})
    return Own(o)


@summ('VecDeque::push_back')
def s_vecdeque_push_back(E, a, info):
    return s_vec_push(E, a, info)


@summ('VecDeque::pop_front')
def s_vecdeque_pop_front(E, a, info):
    oid, o = _vec(E, a[0])
    E.work += 1
    if not o.value:
        return NONE
    return some(o.value.pop(0))


@summ('VecDeque::pop_back')
def s_vecdeque_pop_back(E, a, info):
    return s_vec_pop(E, a, info)


@summ('Vec::len')
def s_vec_len(E, a, info):
    oid, o = _vec(E, a[0])
    return len(o.value)


@summ('Vec::is_empty')
def s_vec_is_empty(E, a, info):
    oid, o = _vec(E, a[0])
    return len(o.value) == 0


@summ('alloc::alloc::handle_alloc_error', 'handle_alloc_error')
def s_handle_alloc_error(E, a, info):
    raise Unsupported('allocation failure is outside every claim')


# ------------------------------------------------------------------ ints / options
@summ('core::num::<impl usize>::checked_sub')
def s_checked_sub(E, a, info):
    if E.branch(s_ule(a[1], a[0])):
        return some(s_sub(a[0], a[1]))
    return NONE


@summ('core::num::<impl usize>::checked_add')
def s_checked_add(E, a, info):
    r = s_add(a[0], a[1])
    if E.branch(s_ule(a[0], r)):
        return some(r)
    return NONE


@summ('core::num::<impl usize>::saturating_sub')
def s_saturating_sub(E, a, info):
    return s_ite(s_ule(a[1], a[0]), s_sub(a[0], a[1]), 0)


@summ('core::num::<impl usize>::saturating_add')
def s_saturating_add(E, a, info):
    r = s_add(a[0], a[1])
    return s_ite(s_ule(a[0], r), r, MASK)


@summ('core::num::<impl usize>::wrapping_sub')
def s_wrapping_sub(E, a, info):
    return s_sub(a[0], a[1])


@summ('core::num::<impl usize>::wrapping_add')
def s_wrapping_add(E, a, info):
    return s_add(a[0], a[1])


@summ('<usize as Ord>::min', 'core::cmp::min')
def s_min(E, a, info):
    return s_ite(s_ule(a[0], a[1]), a[0], a[1])


@summ('<usize as Ord>::max', 'core::cmp::max')
def s_max(E, a, info):
    return s_ite(s_ule(a[0], a[1]), a[1], a[0])


@summ('NonZero::new')
def s_nonzero_new(E, a, info):
    if E.branch(s_not(s_eq(a[0], 0))):
        return some(a[0])
    return NONE


@summ('Option::unwrap_or_default')
def s_unwrap_or_default(E, a, info):
    if a[0].variant == 'Some':
        return a[0].fields[0]
    return 0


@summ('Option::unwrap_or')
def s_unwrap_or(E, a, info):
    if a[0].variant == 'Some':
        return a[0].fields[0]
    return a[1]


@summ('Option::copied', 'Option::cloned')
def s_copied(E, a, info):
    if a[0].variant == 'Some':
        return some(E.read(a[0].fields[0]))
    return NONE


@summ('Option::and_then')
def s_and_then(E, a, info):
    if a[0].variant == 'Some':
        return E.call_closure(a[1], [a[0].fields[0]])
    return NONE


@summ('Option::map')
def s_opt_map(E, a, info):
    if a[0].variant == 'Some':
        return some(E.call_closure(a[1], [a[0].fields[0]]))
    return NONE


@summ('Option::map_or')
def s_map_or(E, a, info):
    if a[0].variant == 'Some':
        return E.call_closure(a[2], [a[0].fields[0]])
    return a[1]


@summ('Option::is_some')
def s_is_some(E, a, info):
    return E.read(a[0]).variant == 'Some'


@summ('Option::is_none')
def s_is_none(E, a, info):
    return E.read(a[0]).variant == 'None'


@summ('Option::expect', 'Option::unwrap')
def s_expect(E, a, info):
    if a[0].variant == 'Some':
        return a[0].fields[0]
    raise Panic('called `Option::unwrap()`/expect on a `None` value', info['key'])


@summ('Option::unwrap_unchecked')
def s_unwrap_unchecked(E, a, info):
    if a[0].variant == 'Some':
        return a[0].fields[0]
    raise UB('unreachable', 'unwrap_unchecked on None')


@summ('Result::unwrap', 'Result::expect')
def s_res_unwrap(E, a, info):
    if a[0].variant == 'Ok':
        return a[0].fields[0]
    raise Panic('called `Result::unwrap()` on an `Err` value', info['key'])


@summ('Result::unwrap_or_else')
def s_res_unwrap_or_else(E, a, info):
    if a[0].variant == 'Ok':
        return a[0].fields[0]
    return E.call_closure(a[1], [a[0].fields[0]])


@summ('<Option as Try>::branch')
def s_opt_branch(E, a, info):
    if a[0].variant == 'Some':
        return Agg('ControlFlow', 'Continue', (a[0].fields[0],))
    return Agg('ControlFlow', 'Break', (NONE,))


@summ('<Result as Try>::branch')
def s_res_branch(E, a, info):
    if a[0].variant == 'Ok':
        return Agg('ControlFlow', 'Continue', (a[0].fields[0],))
    return Agg('ControlFlow', 'Break', (a[0],))


@summ('<Option as FromResidual>::from_residual')
def s_opt_from_residual(E, a, info):
    return NONE


@summ('<Result as FromResidual>::from_residual')
def s_res_from_residual(E, a, info):
    return a[0]


@summ('<impl FnOnce as FnOnce>::call_once', '<* as FnOnce>::call_once', '<* as FnMut>::call_mut', '<* as Fn>::call')
def s_call_once(E, a, info):
    args = list(a[1].fields) if isinstance(a[1], Agg) and a[1].name in ('tuple', '()') else [a[1]]
    return E.call_closure(a[0], args)


@summ('<ManuallyDrop as Clone>::clone')
def s_md_clone(E, a, info):
    inner = ty_args(info['self_ty'])[0]
    return E.invoke('<%s as Clone>::clone' % inner, [a[0]], info['frame'])


# ------------------------------------------------------------------ Range
@summ('<Range as IntoIterator>::into_iter', '<Range as Iterator>::by_ref')
def s_range_into_iter(E, a, info):
    return a[0]


@summ('<Range as Iterator>::next')
def s_range_next(E, a, info):
    r = E.read(a[0])
    start, end = r.fields
    if E.branch(s_ult(start, end)):
        E.loop_iter('range')
        if not is_sym(start) and start >= getattr(E, 'loop_bound', 64):
            raise Unsupported('counted loop exceeds the unrolling bound of %d iterations' % getattr(E, 'loop_bound', 64))
        E.write(a[0], Agg('Range', None, (s_add(start, 1), end)))
        return some(start)
    return NONE


def _loop_iter(self, what):
    self.loop_iters = getattr(self, 'loop_iters', 0) + 1
    if self.loop_iters > 500000:
        raise Unsupported('loop safety bound exceeded (%s)' % what)


I.Engine.loop_iter = _loop_iter


# ------------------------------------------------------------------ hash maps
def _new_map(E, is_set=False):
    md = MapData(is_set)
    o = E.new_obj('map', md, {'label': ' (table)'})
    return Own(o)


@summ('<HashMap as Default>::default', 'HashMap::new', 'HashMap::default', 'HashMap::with_hasher')
def s_map_default(E, a, info):
    return _new_map(E)


@summ('<HashSet as Default>::default', 'HashSet::new', 'HashSet::default', 'HashSet::with_hasher')
def s_set_default(E, a, info):
    return _new_map(E, True)


def _map_insert_new(E, oid, md, key, val):
    if not md.ever_allocated or len(md.keys) in (3, 7, 14, 28, 56):
        # first insertion / growth of the bucket array allocates
        md.ever_allocated = True
        E.alloc_events += 1
        E.events.append(('alloc', 'table-buckets', oid))
    pos = len(md.keys)
    if E.layout is not None:
        pos = E.layout.insert_pos(E, oid, md.keys, key)
    md.keys.insert(pos, key)
    md.vals[key] = val


@summ('HashMap::entry')
def s_entry(E, a, info):
    oid, md = E.map_of(a[0])
    k = E.map_find(md, a[1])
    if k is not None:
        return Agg('Entry', 'Occupied', (Agg('OccupiedEntry', None, (oid, a[1], k)),))
    return Agg('Entry', 'Vacant', (Agg('VacantEntry', None, (oid, a[1], NONE)),))


@summ('Entry::and_modify')
def s_and_modify(E, a, info):
    if a[0].variant == 'Occupied':
        oid, key, found = a[0].fields[0].fields
        E.call_closure(a[1], [Ptr(oid, (('val', found),))])
    return a[0]


def _entry_found(e):
    return e.fields[0].fields[2] if e.variant == 'Occupied' else None


def _entry_parts(e):
    oid, key, _ = e.fields[0].fields
    return oid, key


@summ('OccupiedEntry::get', 'OccupiedEntry::get_mut', 'OccupiedEntry::into_mut')
def s_occ_get(E, a, info):
    e = a[0] if isinstance(a[0], Agg) else E.read(a[0])
    oid, key, found = e.fields
    return Ptr(oid, (('val', found),))


@summ('OccupiedEntry::key')
def s_occ_key(E, a, info):
    e = E.read(a[0])
    oid, key, found = e.fields
    return Ptr(oid, (('key', found),))


@summ('OccupiedEntry::insert')
def s_occ_insert(E, a, info):
    e = E.read(a[0])
    oid, key, found = e.fields
    md = E.heap[oid].value
    old = md.vals[found]
    md.vals[found] = a[1]
    return old


@summ('OccupiedEntry::remove', 'OccupiedEntry::remove_entry')
def s_occ_remove(E, a, info):
    oid, key, found = a[0].fields
    md = E.heap[oid].value
    v = md.vals.pop(found)
    md.keys.remove(found)
    return v if info['key'].endswith('remove') else tup(found, v)


@summ('VacantEntry::insert')
def s_vac_insert(E, a, info):
    oid, key, _ = a[0].fields
    md = E.heap[oid].value
    _map_insert_new(E, oid, md, key, a[1])
    return Ptr(oid, (('val', key),))


@summ('VacantEntry::key')
def s_vac_key(E, a, info):
    e = E.read(a[0])
    return Ptr(E.new_obj('tmp', e.fields[1]))


@summ('Entry::or_insert')
def s_or_insert(E, a, info):
    oid, key = _entry_parts(a[0])
    md = E.heap[oid].value
    found = _entry_found(a[0])
    if found is None:
        _map_insert_new(E, oid, md, key, a[1])
        found = key
    return Ptr(oid, (('val', found),))


@summ('Entry::or_default')
def s_or_default(E, a, info):
    return s_or_insert(E, [a[0], 0], info)


@summ('Entry::or_insert_with')
def s_or_insert_with(E, a, info):
    oid, key = _entry_parts(a[0])
    md = E.heap[oid].value
    found = _entry_found(a[0])
    if found is None:
        v = E.call_closure(a[1], [])
        _map_insert_new(E, oid, md, key, v)
        found = key
    return Ptr(oid, (('val', found),))


@summ('HashMap::get')
def s_map_get(E, a, info):
    oid, md = E.map_of(a[0])
    key = E.read(a[1])
    k = E.map_find(md, key)
    if k is None:
        return NONE
    return some(Ptr(oid, (('val', k),)))


@summ('HashMap::get_mut')
def s_map_get_mut(E, a, info):
    return s_map_get(E, a, info)


@summ('HashMap::contains_key', 'HashSet::contains')
def s_contains(E, a, info):
    oid, md = E.map_of(a[0])
    key = E.read(a[1])
    return E.map_find(md, key) is not None


@summ('HashMap::insert')
def s_map_insert(E, a, info):
    oid, md = E.map_of(a[0])
    k = E.map_find(md, a[1])
    if k is None:
        _map_insert_new(E, oid, md, a[1], a[2])
        return NONE
    old = md.vals[k]
    md.vals[k] = a[2]
    return some(old)


@summ('HashSet::insert')
def s_set_insert(E, a, info):
    oid, md = E.map_of(a[0])
    k = E.map_find(md, a[1])
    if k is None:
        _map_insert_new(E, oid, md, a[1], UNIT)
        return True
    return False


@summ('HashMap::remove', 'HashSet::remove')
def s_map_remove(E, a, info):
    oid, md = E.map_of(a[0])
    key = E.read(a[1])
    k = E.map_find(md, key)
    if k is None:
        return NONE if not md.is_set else False
    v = md.vals.pop(k)
    md.keys.remove(k)
    return some(v) if not md.is_set else True


@summ('HashMap::clear', 'HashSet::clear')
def s_map_clear(E, a, info):
    oid, md = E.map_of(a[0])
    md.keys = []
    md.vals = {}
    return UNIT


@summ('HashMap::is_empty', 'HashSet::is_empty')
def s_map_is_empty(E, a, info):
    oid, md = E.map_of(a[0])
    return len(md.keys) == 0


@summ('HashMap::len', 'HashSet::len')
def s_map_len(E, a, info):
    oid, md = E.map_of(a[0])
    return len(md.keys)


@summ('HashMap::iter', '<&HashMap as IntoIterator>::into_iter', 'HashMap::iter_mut',
      '<&mut HashMap as IntoIterator>::into_iter')
def s_map_iter(E, a, info):
    oid, md = E.map_of(a[0])
    return Agg('MapIter', None, (oid, tuple(E.iter_keys(oid, md)), 0))


@summ('HashMap::keys')
def s_map_keys(E, a, info):
    oid, md = E.map_of(a[0])
    return Agg('KeysIter', None, (oid, tuple(E.iter_keys(oid, md)), 0))


@summ('HashMap::values', 'HashMap::values_mut')
def s_map_values(E, a, info):
    oid, md = E.map_of(a[0])
    return Agg('ValuesIter', None, (oid, tuple(E.iter_keys(oid, md)), 0))


@summ('<HashMap as IntoIterator>::into_iter')
def s_map_into_iter(E, a, info):
    oid, md = E.map_of(a[0])
    return Agg('IntoIter', None, (oid, tuple(E.iter_keys(oid, md)), 0))


@summ('HashMap::drain')
def s_map_drain(E, a, info):
    oid, md = E.map_of(a[0])
    keys = tuple(E.iter_keys(oid, md))
    vals = dict(md.vals)
    md.keys = []
    md.vals = {}
    return Agg('Drain', None, (tuple((k, vals[k]) for k in keys), 0))


@summ('HashMap::extract_if')
def s_extract_if(E, a, info):
    oid, md = E.map_of(a[0])
    return Agg('ExtractIf', None, (oid, a[1], tuple(E.iter_keys(oid, md)), 0))


@summ('HashMap::retain')
def s_retain(E, a, info):
    oid, md = E.map_of(a[0])
    for k in E.iter_keys(oid, md):
        keep = E.call_closure(a[1], [Ptr(oid, (('key', k),)), Ptr(oid, (('val', k),))])
        if not E.branch(keep):
            md.vals.pop(k)
            md.keys.remove(k)
    return UNIT


def _slice(E, p):
    """a slice reference is modelled as the pointer to the place holding the Vec (or to an array value)"""
    v = E.read(p) if isinstance(p, Ptr) else p
    if isinstance(v, Own):
        o = E.heap[v.obj]
        if not o.live:
            raise UB('use-after-free', 'use of a dropped Vec through a slice')
        return ('vec', v.obj, o.value)
    if isinstance(v, Agg) and v.name == 'array':
        return ('arr', p, list(v.fields))
    raise Unsupported('slice operation on %r' % (v,))


@summ('core::slice::<impl [T]>::get', 'core::slice::<impl [T]>::get_mut', 'core::slice::<impl [T]>::get_unchecked')
def s_slice_get(E, a, info):
    kind, ref, items = _slice(E, a[0])
    i = a[1]
    if is_sym(i):
        raise Unsupported('symbolic slice index')
    if i >= len(items):
        if info['key'].endswith('unchecked'):
            raise UB('out-of-bounds', 'get_unchecked past the end')
        return NONE
    return some(Ptr(ref, (i,)) if kind == 'vec' else ref.field(i))


@summ('core::slice::<impl [T]>::len')
def s_slice_len(E, a, info):
    return len(_slice(E, a[0])[2])


@summ('core::slice::<impl [T]>::is_empty')
def s_slice_is_empty(E, a, info):
    return len(_slice(E, a[0])[2]) == 0


@summ('core::slice::<impl [T]>::first', 'core::slice::<impl [T]>::last')
def s_slice_first(E, a, info):
    kind, ref, items = _slice(E, a[0])
    if not items:
        return NONE
    i = 0 if info['key'].endswith('first') else len(items) - 1
    return some(Ptr(ref, (i,)) if kind == 'vec' else ref.field(i))


@summ('core::slice::<impl [T]>::iter', 'core::slice::<impl [T]>::iter_mut')
def s_slice_iter(E, a, info):
    kind, ref, items = _slice(E, a[0])
    if kind != 'vec':
        raise Unsupported('iteration over an array slice')
    return Agg('SliceIter', None, (ref, 0))


@summ('<Vec as Index>::index', '<Vec as IndexMut>::index_mut', '<[T] as Index>::index')
def s_vec_index(E, a, info):
    kind, ref, items = _slice(E, a[0])
    i = a[1]
    if is_sym(i) or not isinstance(i, int):
        raise Unsupported('slice index %r' % (i,))
    if i >= len(items):
        raise Panic('index out of bounds: the len is %d but the index is %d' % (len(items), i), 'Index::index')
    return Ptr(ref, (i,)) if kind == 'vec' else ref.field(i)


@summ('<Vec as IntoIterator>::into_iter')
def s_vec_into_iter(E, a, info):
    oid, o = _vec(E, a[0])
    return Agg('VecIntoIter', None, (oid, 0))


@summ('<&Vec as IntoIterator>::into_iter', '<&mut Vec as IntoIterator>::into_iter', 'Vec::iter', 'Vec::iter_mut', 'slice::iter', 'slice::iter_mut')
def s_vec_iter(E, a, info):
    oid, o = _vec(E, a[0])
    return Agg('SliceIter', None, (oid, 0))


@summ('<Vec as Deref>::deref', '<Vec as DerefMut>::deref_mut', 'Vec::as_slice', 'Vec::as_mut_slice')
def s_vec_deref(E, a, info):
    return a[0]


@summ('<MapIter as IntoIterator>::into_iter', '<Iter as IntoIterator>::into_iter', '<* as IntoIterator>::into_iter')
def s_iter_into_iter(E, a, info):
    if isinstance(a[0], Own) and E.heap[a[0].obj].kind == 'vec':
        return Agg('VecIntoIter', None, (a[0].obj, 0))
    if isinstance(a[0], Ptr):
        v = E.read(a[0])
        if isinstance(v, Own) and E.heap[v.obj].kind == 'vec':
            return Agg('SliceIter', None, (v.obj, 0))
    if isinstance(a[0], Agg) and a[0].name in ('MapIter', 'IntoIter', 'ExtractIf', 'MapAd', 'FilterAd', 'Range',
                                               'KeysIter', 'ValuesIter', 'Drain', 'VecIntoIter', 'SliceIter', 'OptIter', 'FlatMapAd', 'FilterMapAd', 'CopiedAd',
                                               'TakeWhileAd', 'SkipWhileAd', 'TakeAd', 'SkipAd', 'EnumerateAd', 'ChainAd', 'InspectAd'):
        return a[0]
    raise Unsupported('into_iter of %r' % (a[0],))


def iter_next(E, itptr):
    """advance the iterator stored at itptr; returns Option value"""
    E.work += 1
    it = E.read(itptr)
    n = it.name
    if n in ('MapIter', 'KeysIter', 'ValuesIter'):
        oid, keys, pos = it.fields
        md = E.heap[oid].value
        while pos < len(keys) and keys[pos] not in md.vals:
            # entry removed while iterating (iterator invalidation cannot happen in safe code; be conservative)
            raise UB('iterator-invalidated', 'table modified during iteration')
        if pos >= len(keys):
            return NONE
        E.loop_iter('map iteration')
        E.write(itptr, Agg(n, None, (oid, keys, pos + 1)))
        k = keys[pos]
        if n == 'KeysIter':
            return some(Ptr(oid, (('key', k),)))
        if n == 'ValuesIter':
            return some(Ptr(oid, (('val', k),)))
        return some(tup(Ptr(oid, (('key', k),)), Ptr(oid, (('val', k),))))
    if n == 'IntoIter':
        oid, keys, pos = it.fields
        md = E.heap[oid].value
        if pos >= len(keys):
            return NONE
        E.loop_iter('map into_iter')
        E.write(itptr, Agg(n, None, (oid, keys, pos + 1)))
        k = keys[pos]
        return some(tup(k, md.vals[k]))
    if n == 'VecIntoIter':
        oid, pos = it.fields
        o = E.heap[oid]
        if pos >= len(o.value):
            return NONE
        E.loop_iter('vec into_iter')
        E.write(itptr, Agg(n, None, (oid, pos + 1)))
        v = o.value[pos]
        o.value[pos] = UNINIT         # moved out
        return some(v)
    if n == 'SliceIter':
        oid, pos = it.fields
        o = E.heap[oid]
        if pos >= len(o.value):
            return NONE
        E.loop_iter('slice iter')
        E.write(itptr, Agg(n, None, (oid, pos + 1)))
        return some(Ptr(oid, (pos,)))
    if n == 'Drain':
        items, pos = it.fields
        if pos >= len(items):
            return NONE
        E.write(itptr, Agg(n, None, (items, pos + 1)))
        return some(tup(items[pos][0], items[pos][1]))
    if n == 'ExtractIf':
        oid, clos, keys, pos = it.fields
        md = E.heap[oid].value
        while pos < len(keys):
            k = keys[pos]
            pos += 1
            E.loop_iter('extract_if')
            E.write(itptr, Agg(n, None, (oid, clos, keys, pos)))
            if k not in md.vals:
                continue
            r = E.call_closure(clos, [Ptr(oid, (('key', k),)), Ptr(oid, (('val', k),))])
            if E.branch(r):
                v = md.vals.pop(k)
                md.keys.remove(k)
                return some(tup(k, v))
        return NONE
    if n == 'MapAd':
        inner, clos = it.fields
        tmp = Ptr(E.new_obj('tmp', inner))
        r = iter_next(E, tmp)
        E.write(itptr, Agg(n, None, (E.read(tmp), clos)))
        if r.variant == 'None':
            return NONE
        return some(E.call_closure(clos, [r.fields[0]]))
    if n == 'FilterAd':
        inner, clos = it.fields
        tmp = Ptr(E.new_obj('tmp', inner))
        while True:
            r = iter_next(E, tmp)
            E.write(itptr, Agg(n, None, (E.read(tmp), clos)))
            if r.variant == 'None':
                return NONE
            item = Ptr(E.new_obj('tmp', r.fields[0]))
            keep = E.call_closure(clos, [item])
            if E.branch(keep):
                return r
    if n == 'Range':
        return s_range_next(E, [itptr], None)
    raise Unsupported('next() on %r' % (it,))


@summ('<Iter as Iterator>::next', '<* as Iterator>::next')
def s_iter_next(E, a, info):
    return iter_next(E, a[0])


@summ('<Iter as Iterator>::any', '<* as Iterator>::any')
def s_iter_any(E, a, info):
    while True:
        r = iter_next(E, a[0])
        if r.variant == 'None':
            return False
        if E.branch(E.call_closure(a[1], [r.fields[0]])):
            return True


@summ('<* as Iterator>::all')
def s_iter_all(E, a, info):
    while True:
        r = iter_next(E, a[0])
        if r.variant == 'None':
            return True
        if not E.branch(E.call_closure(a[1], [r.fields[0]])):
            return False


@summ('<* as Iterator>::map')
def s_iter_map(E, a, info):
    return Agg('MapAd', None, (a[0], a[1]))


@summ('<* as Iterator>::filter')
def s_iter_filter(E, a, info):
    return Agg('FilterAd', None, (a[0], a[1]))


@summ('<* as Iterator>::sum')
def s_iter_sum(E, a, info):
    tmp = Ptr(E.new_obj('tmp', a[0]))
    acc = 0
    while True:
        r = iter_next(E, tmp)
        if r.variant == 'None':
            break
        x = r.fields[0]
        s = s_add(acc, x)
        # `impl Sum for usize` inherits the caller's overflow checks
        if not E.branch(s_ule(acc, s)):
            raise Panic('attempt to add with overflow', 'Iterator::sum')
        acc = s
    # the adapter chain (ExtractIf) is dropped here: nothing retained
    return acc


@summ('<* as Iterator>::count')
def s_iter_count(E, a, info):
    tmp = Ptr(E.new_obj('tmp', a[0]))
    n = 0
    while iter_next(E, tmp).variant != 'None':
        n += 1
    return n


@summ('<* as Iterator>::for_each')
def s_iter_for_each(E, a, info):
    tmp = Ptr(E.new_obj('tmp', a[0]))
    while True:
        r = iter_next(E, tmp)
        if r.variant == 'None':
            return UNIT
        E.call_closure(a[1], [r.fields[0]])


# ------------------------------------------------------------------ log / fmt
LEVELS = {'Error': 1, 'Warn': 2, 'Info': 3, 'Debug': 4, 'Trace': 5, 'Off': 0}


@summ('max_level', 'log::max_level')
def s_max_level(E, a, info):
    return Agg('LevelFilter', 'Off')


@summ('<Level as PartialOrd>::le')
def s_level_le(E, a, info):
    x = E.read(a[0])
    y = E.read(a[1])
    return LEVELS[x.variant] <= LEVELS[y.variant]


@summ('log::__private_api::loc', 'log::__private_api::log', 'log::__private_api::enabled')
def s_log(E, a, info):
    raise Unsupported('log call reached although max_level() is Off')


# ------------------------------------------------------------------ the opaque payload type T
@summ('<T as Clone>::clone')
def s_T_clone(E, a, info):
    v = E.read(a[0])
    if v is UNINIT:
        raise UB('uninit-read', 'clone of a moved-out value')
    return E.hooks.clone_T(E, v)


@summ('<T as Default>::default')
def s_T_default(E, a, info):
    return E.hooks.default_T(E)


@summ('<T as *>::*', '<T as PartialEq>::eq', '<T as PartialEq>::ne', '<T as PartialOrd>::partial_cmp',
      '<T as PartialOrd>::lt', '<T as PartialOrd>::le', '<T as PartialOrd>::gt', '<T as PartialOrd>::ge',
      '<T as Ord>::cmp', '<T as Hash>::hash', '<T as Debug>::fmt', '<T as Display>::fmt')
def s_T_method(E, a, info):
    vals = []
    for x in a:
        if isinstance(x, Ptr):
            try:
                v = E.read(x)
            except UB:
                raise
            vals.append(v)
        else:
            vals.append(x)
    if vals and vals[0] is UNINIT:
        raise UB('uninit-read', 'trait method on a moved-out value')
    return E.hooks.method_T(E, info['key'], vals)


@summ('<*const T as Pointer>::fmt', '<*mut RcBox as Pointer>::fmt')
def s_ptr_fmt(E, a, info):
    return E.hooks.method_T(E, 'Pointer::fmt', [E.read(a[0])])


# ------------------------------------------------------------------ wider API surface (so that plausible edits stay executable)
def _opt(v):
    return some(v) if v is not None else NONE


@summ('core::mem::take')
def s_mem_take(E, a, info):
    old = E.read(a[0])
    ty = info['gen'][0] if info['gen'] else ''
    hd = I.last_seg(I.ty_head(ty)) if ty else ''
    if hd in ('HashMap', 'HashSet'):
        new = _new_map(E, hd == 'HashSet')
    elif hd == 'Vec':
        new = s_vec_new(E, [], info)
    elif hd == 'Option':
        new = NONE
    elif ty in ('usize', 'isize'):
        new = 0
    elif ty == 'bool':
        new = False
    elif hd == 'Links':
        new = E.invoke('link::Links::<T>::new', [], info['frame'])
    else:
        raise Unsupported('mem::take::<%s>' % ty)
    E.write(a[0], new)
    return old


@summ('Cell::take')
def s_cell_take(E, a, info):
    old = E.read(a[0])
    E.write(a[0], 0)
    return old


@summ('Cell::update')
def s_cell_update(E, a, info):
    old = E.read(a[0])
    new = E.call_closure(a[1], [old])
    E.write(a[0], new)
    return new


@summ('Cell::as_ptr', 'Cell::get_mut')
def s_cell_as_ptr(E, a, info):
    return a[0]


@summ('Cell::into_inner')
def s_cell_into_inner(E, a, info):
    return a[0]


@summ('Option::take')
def s_opt_take(E, a, info):
    old = E.read(a[0])
    E.write(a[0], NONE)
    return old


@summ('Option::replace')
def s_opt_replace(E, a, info):
    old = E.read(a[0])
    E.write(a[0], some(a[1]))
    return old


@summ('Option::insert', 'Option::get_or_insert')
def s_opt_insert(E, a, info):
    cur = E.read(a[0])
    if info['key'].endswith('get_or_insert') and cur.variant == 'Some':
        return a[0].field(0)
    E.write(a[0], some(a[1]))
    return a[0].field(0)


@summ('Option::as_ref', 'Option::as_mut', 'Option::as_deref')
def s_opt_as_ref(E, a, info):
    cur = E.read(a[0])
    if cur.variant == 'Some':
        return some(a[0].field(0))
    return NONE


@summ('Option::unwrap_or_else')
def s_opt_unwrap_or_else(E, a, info):
    if a[0].variant == 'Some':
        return a[0].fields[0]
    return E.call_closure(a[1], [])


@summ('Option::map_or_else')
def s_opt_map_or_else(E, a, info):
    if a[0].variant == 'Some':
        return E.call_closure(a[2], [a[0].fields[0]])
    return E.call_closure(a[1], [])


@summ('Option::ok_or')
def s_opt_ok_or(E, a, info):
    if a[0].variant == 'Some':
        return Agg('Result', 'Ok', (a[0].fields[0],))
    return Agg('Result', 'Err', (a[1],))


@summ('Option::filter')
def s_opt_filter(E, a, info):
    if a[0].variant == 'Some':
        tmp = Ptr(E.new_obj('tmp', a[0].fields[0]))
        if E.branch(E.call_closure(a[1], [tmp])):
            return a[0]
    return NONE


@summ('Option::or')
def s_opt_or(E, a, info):
    return a[0] if a[0].variant == 'Some' else a[1]


@summ('Option::is_some_and')
def s_opt_is_some_and(E, a, info):
    if a[0].variant == 'Some':
        return E.call_closure(a[1], [a[0].fields[0]])
    return False


@summ('Option::zip')
def s_opt_zip(E, a, info):
    if a[0].variant == 'Some' and a[1].variant == 'Some':
        return some(tup(a[0].fields[0], a[1].fields[0]))
    return NONE


@summ('Result::ok')
def s_res_ok(E, a, info):
    return some(a[0].fields[0]) if a[0].variant == 'Ok' else NONE


@summ('Result::is_ok')
def s_res_is_ok(E, a, info):
    return E.read(a[0]).variant == 'Ok'


@summ('Result::is_err')
def s_res_is_err(E, a, info):
    return E.read(a[0]).variant == 'Err'


@summ('Result::map')
def s_res_map(E, a, info):
    if a[0].variant == 'Ok':
        return Agg('Result', 'Ok', (E.call_closure(a[1], [a[0].fields[0]]),))
    return a[0]


@summ('Result::unwrap_or')
def s_res_unwrap_or(E, a, info):
    return a[0].fields[0] if a[0].variant == 'Ok' else a[1]


@summ('core::num::<impl usize>::overflowing_sub')
def s_overflowing_sub(E, a, info):
    return tup(s_sub(a[0], a[1]), s_ult(a[0], a[1]))


@summ('core::num::<impl usize>::overflowing_add')
def s_overflowing_add(E, a, info):
    r = s_add(a[0], a[1])
    return tup(r, s_ult(r, a[0]))


@summ('core::num::<impl usize>::abs_diff')
def s_abs_diff(E, a, info):
    return s_ite(s_ule(a[1], a[0]), s_sub(a[0], a[1]), s_sub(a[1], a[0]))


@summ('core::num::<impl usize>::is_power_of_two', 'core::num::<impl usize>::count_ones')
def s_unsupported_int(E, a, info):
    raise Unsupported(info['key'])


@summ('<usize as PartialOrd>::lt', '<usize as PartialOrd>::le', '<usize as PartialOrd>::gt', '<usize as PartialOrd>::ge',
      '<usize as PartialEq>::eq', '<usize as PartialEq>::ne')
def s_usize_cmp(E, a, info):
    x = E.read(a[0])
    y = E.read(a[1])
    m = info['key'].split('::')[-1]
    return {'lt': s_ult(x, y), 'le': s_ule(x, y), 'gt': s_ult(y, x), 'ge': s_ule(y, x), 'eq': s_eq(x, y), 'ne': s_not(s_eq(x, y))}[m]


@summ('<usize as Ord>::cmp', 'core::cmp::Ord::cmp')
def s_usize_ord_cmp(E, a, info):
    x = E.read(a[0])
    y = E.read(a[1])
    if E.branch(s_ult(x, y)):
        return Agg('Ordering', 'Less')
    if E.branch(s_eq(x, y)):
        return Agg('Ordering', 'Equal')
    return Agg('Ordering', 'Greater')


@summ('<usize as Clone>::clone', '<bool as Clone>::clone', '<NonNull as Clone>::clone', '<*mut RcBox as Clone>::clone')
def s_copy_clone(E, a, info):
    return E.read(a[0])


@summ('<usize as Default>::default')
def s_usize_default(E, a, info):
    return 0


@summ('<usize as AddAssign>::add_assign')
def s_add_assign(E, a, info):
    E.write(a[0], s_add(E.read(a[0]), a[1]))
    return UNIT


@summ('<usize as SubAssign>::sub_assign')
def s_sub_assign(E, a, info):
    x = E.read(a[0])
    if not E.branch(s_ule(a[1], x)):
        raise Panic('attempt to subtract with overflow', 'sub_assign')
    E.write(a[0], s_sub(x, a[1]))
    return UNIT


# Vec / slices
@summ('Vec::extend', '<Vec as Extend>::extend')
def s_vec_extend(E, a, info):
    oid, o = _vec(E, a[0])
    it = s_iter_into_iter(E, [a[1]], info) if not (isinstance(a[1], Agg) and a[1].name.endswith(('Iter', 'Ad'))) else a[1]
    tmp = Ptr(E.new_obj('tmp', it))
    while True:
        r = iter_next(E, tmp)
        if r.variant == 'None':
            break
        s_vec_push(E, [a[0], r.fields[0]], info)
    return UNIT


@summ('Vec::retain')
def s_vec_retain(E, a, info):
    oid, o = _vec(E, a[0])
    keep = []
    for k, x in enumerate(list(o.value)):
        E.work += 1
        if E.branch(E.call_closure(a[1], [Ptr(oid, (k,))])):
            keep.append(x)
        else:
            raise Unsupported('Vec::retain dropping elements')
    o.value[:] = keep
    return UNIT


@summ('Vec::drain')
def s_vec_drain(E, a, info):
    oid, o = _vec(E, a[0])
    items = tuple(o.value)
    o.value[:] = []
    return Agg('Drain', None, (tuple((x, UNIT) for x in items), 0, 'vec'))


@summ('Vec::first', 'Vec::last')
def s_vec_first(E, a, info):
    return s_slice_first(E, a, info)


@summ('Vec::get', 'Vec::get_mut')
def s_vec_get(E, a, info):
    return s_slice_get(E, a, info)


@summ('Vec::capacity')
def s_vec_capacity(E, a, info):
    oid, o = _vec(E, a[0])
    return o.meta.get('cap', 0)


@summ('Vec::reserve', 'Vec::shrink_to_fit', 'HashMap::reserve', 'HashMap::shrink_to_fit')
def s_reserve(E, a, info):
    return UNIT


@summ('Vec::reverse')
def s_vec_reverse(E, a, info):
    oid, o = _vec(E, a[0])
    o.value.reverse()
    return UNIT


@summ('Vec::append')
def s_vec_append(E, a, info):
    oid, o = _vec(E, a[0])
    oid2, o2 = _vec(E, a[1])
    o.value.extend(o2.value)
    o2.value[:] = []
    return UNIT


# iterator adapters
@summ('<* as Iterator>::rev')
def s_iter_rev(E, a, info):
    it = a[0]
    if it.name in ('SliceIter', 'VecIntoIter'):
        raise Unsupported('rev() on vec iterators')
    if it.name in ('MapIter', 'KeysIter', 'ValuesIter', 'IntoIter'):
        oid, keys, pos = it.fields
        return Agg(it.name, None, (oid, tuple(reversed(keys[pos:])), 0))
    raise Unsupported('rev() on %s' % it.name)


@summ('<* as Iterator>::enumerate', '<* as Iterator>::peekable', '<* as Iterator>::fuse', '<* as Iterator>::by_ref')
def s_iter_passthrough_unsupported(E, a, info):
    if info['key'].endswith(('fuse', 'by_ref')):
        return a[0]
    raise Unsupported(info['key'])


@summ('<* as Iterator>::collect')
def s_iter_collect(E, a, info):
    ty = info['gen'][0] if info['gen'] else ''
    hd = I.last_seg(I.ty_head(ty))
    tmp = Ptr(E.new_obj('tmp', a[0]))
    if hd == 'Vec':
        v = s_vec_new(E, [], info)
        vp = Ptr(E.new_obj('tmp', v))
        while True:
            r = iter_next(E, tmp)
            if r.variant == 'None':
                return v
            s_vec_push(E, [vp, r.fields[0]], info)
    if hd in ('HashMap', 'HashSet'):
        m = _new_map(E, hd == 'HashSet')
        oid, md = E.map_of(m)
        while True:
            r = iter_next(E, tmp)
            if r.variant == 'None':
                return m
            item = r.fields[0]
            if hd == 'HashSet':
                if E.map_find(md, item) is None:
                    _map_insert_new(E, oid, md, item, UNIT)
            else:
                k, v = item.fields
                f = E.map_find(md, k)
                if f is None:
                    _map_insert_new(E, oid, md, k, v)
                else:
                    md.vals[f] = v
    raise Unsupported('collect::<%s>' % ty)


@summ('<* as Iterator>::fold')
def s_iter_fold(E, a, info):
    tmp = Ptr(E.new_obj('tmp', a[0]))
    acc = a[1]
    while True:
        r = iter_next(E, tmp)
        if r.variant == 'None':
            return acc
        acc = E.call_closure(a[2], [acc, r.fields[0]])


@summ('<* as Iterator>::find', '<* as Iterator>::position')
def s_iter_find(E, a, info):
    k = 0
    while True:
        r = iter_next(E, a[0])
        if r.variant == 'None':
            return NONE
        if info['key'].endswith('find'):
            item = Ptr(E.new_obj('tmp', r.fields[0]))
            if E.branch(E.call_closure(a[1], [item])):
                return r
        else:
            if E.branch(E.call_closure(a[1], [r.fields[0]])):
                return some(k)
        k += 1


@summ('<* as Iterator>::filter_map')
def s_iter_filter_map(E, a, info):
    return Agg('FilterMapAd', None, (a[0], a[1]))


@summ('<* as Iterator>::copied', '<* as Iterator>::cloned')
def s_iter_copied(E, a, info):
    return Agg('CopiedAd', None, (a[0],))


@summ('<* as Iterator>::max', '<* as Iterator>::min')
def s_iter_max(E, a, info):
    tmp = Ptr(E.new_obj('tmp', a[0]))
    best = None
    while True:
        r = iter_next(E, tmp)
        if r.variant == 'None':
            return _opt(best)
        x = r.fields[0]
        if best is None:
            best = x
        elif info['key'].endswith('max'):
            best = s_ite(s_ule(best, x), x, best)
        else:
            best = s_ite(s_ule(x, best), x, best)


_iter_next_base = iter_next


def iter_next(E, itptr):      # noqa: F811  (extends the dispatcher above with the adapters defined in this section)
    it = E.read(itptr)
    if isinstance(it, Agg) and it.name == 'FilterMapAd':
        inner, clos = it.fields
        tmp = Ptr(E.new_obj('tmp', inner))
        while True:
            r = _iter_next_base(E, tmp) if E.read(tmp).name not in ('FilterMapAd', 'CopiedAd') else iter_next(E, tmp)
            E.write(itptr, Agg('FilterMapAd', None, (E.read(tmp), clos)))
            if r.variant == 'None':
                return NONE
            o = E.call_closure(clos, [r.fields[0]])
            if o.variant == 'Some':
                return o
    if isinstance(it, Agg) and it.name == 'CopiedAd':
        tmp = Ptr(E.new_obj('tmp', it.fields[0]))
        r = iter_next(E, tmp)
        E.write(itptr, Agg('CopiedAd', None, (E.read(tmp),)))
        if r.variant == 'None':
            return NONE
        return some(E.read(r.fields[0]))
    if isinstance(it, Agg) and it.name in ('MapAd', 'FilterAd') and isinstance(it.fields[0], Agg) and it.fields[0].name in ('FilterMapAd', 'CopiedAd'):
        inner, clos = it.fields
        tmp = Ptr(E.new_obj('tmp', inner))
        while True:
            r = iter_next(E, tmp)
            E.write(itptr, Agg(it.name, None, (E.read(tmp), clos)))
            if r.variant == 'None':
                return NONE
            if it.name == 'MapAd':
                return some(E.call_closure(clos, [r.fields[0]]))
            item = Ptr(E.new_obj('tmp', r.fields[0]))
            if E.branch(E.call_closure(clos, [item])):
                return r
    if isinstance(it, Agg) and it.name == 'Drain' and len(it.fields) == 3:
        items, pos, _ = it.fields
        if pos >= len(items):
            return NONE
        E.write(itptr, Agg('Drain', None, (items, pos + 1, 'vec')))
        return some(items[pos][0])
    return _iter_next_base(E, itptr)


SUMMARIES['<Iter as Iterator>::next'] = lambda E, a, info: iter_next(E, a[0])
SUMMARIES['<* as Iterator>::next'] = lambda E, a, info: iter_next(E, a[0])


# hash maps: the rest of the commonly used surface
@summ('HashMap::remove_entry')
def s_map_remove_entry(E, a, info):
    oid, md = E.map_of(a[0])
    key = E.read(a[1])
    k = E.map_find(md, key)
    if k is None:
        return NONE
    v = md.vals.pop(k)
    md.keys.remove(k)
    return some(tup(k, v))


@summ('HashMap::get_key_value')
def s_map_get_key_value(E, a, info):
    oid, md = E.map_of(a[0])
    key = E.read(a[1])
    k = E.map_find(md, key)
    if k is None:
        return NONE
    return some(tup(Ptr(oid, (('key', k),)), Ptr(oid, (('val', k),))))


@summ('HashMap::into_keys', 'HashMap::into_values')
def s_map_into_kv(E, a, info):
    raise Unsupported(info['key'])


@summ('HashSet::iter', '<&HashSet as IntoIterator>::into_iter')
def s_set_iter(E, a, info):
    oid, md = E.map_of(a[0])
    return Agg('KeysIter', None, (oid, tuple(E.iter_keys(oid, md)), 0))


@summ('HashSet::get', 'HashSet::take')
def s_set_get(E, a, info):
    raise Unsupported(info['key'])


@summ('HashMap::extend', 'HashSet::extend')
def s_map_extend(E, a, info):
    raise Unsupported(info['key'])


# panic / assertion message construction (the message itself is irrelevant to every property)
@summ('Arguments::from_str', 'Arguments::new', 'Arguments::new_const', 'Arguments::new_v1', 'core::fmt::rt::Argument::new_display',
      'core::fmt::rt::Argument::new_debug', 'core::fmt::rt::Argument::new_pointer', 'Arguments::as_str')
def s_fmt_args(E, a, info):
    key = info['key']
    if key.endswith('new_display') or key.endswith('new_debug') or key.endswith('new_pointer'):
        return Agg('FmtArg', key.rsplit('_', 1)[1], (a[0],))
    if key in ('Arguments::new', 'Arguments::new_v1') and len(a) >= 2 and isinstance(a[1], Ptr):
        tmpl = ''
        try:
            v = E.heap[a[0].obj].value
            if isinstance(v, Opaque) and str(v.what).startswith('str:'):
                tmpl = v.what[4:]
        except Exception:
            pass
        return Agg('FmtArgs', None, (tmpl, a[1]))
    if a and isinstance(a[0], Ptr):
        try:
            v = E.heap[a[0].obj].value
            if isinstance(v, Opaque) and str(v.what).startswith('str:'):
                return Opaque('args:' + v.what[4:])
        except Exception:
            pass
    return Opaque('fmt')


def _sink(E, kind, detail):
    if E.hooks is None or not hasattr(E.hooks, 'sink_event'):
        raise Unsupported('write to a Formatter/Hasher without driver')
    E.hooks.sink_event(E, kind, detail)


@summ('Formatter::write_fmt', 'Formatter::<\'_>::write_fmt', 'core::fmt::Write::write_fmt', '<Formatter as Write>::write_fmt')
def s_formatter_write_fmt(E, a, info):
    v = a[1]
    if isinstance(v, Agg) and v.name == 'FmtArgs':
        import re as _re
        tmpl, argsp = v.fields
        if _re.sub(r'\\x[0-9a-fA-F]{2}', '', tmpl).strip():
            _sink(E, 'str', '<lit>')
        arr = E.read(argsp)
        for fa in (arr.fields if isinstance(arr, Agg) else []):
            if not (isinstance(fa, Agg) and fa.name == 'FmtArg'):
                raise Unsupported('format argument %r' % (fa,))
            x = fa.fields[0]
            for _ in range(4):
                if isinstance(x, Ptr):
                    x = E.read(x)
            if isinstance(x, TVal):
                # T's formatter is called on a fresh Formatter: the caller's width / fill / precision / flags are gone
                E.hooks.method_T(E, '<T as %s>::fmt' % ('Debug' if fa.variant == 'debug' else 'Display'), [x])
                _sink(E, 'spec-dropped', '')
            else:
                _sink(E, 'raw', 'format argument %s' % type(x).__name__)
        return Agg('Result', 'Ok', (UNIT,))
    _sink(E, 'str', v.what[5:] if isinstance(v, Opaque) and str(v.what).startswith('args:') else '<fmt>')
    return Agg('Result', 'Ok', (UNIT,))


@summ('Formatter::write_str', 'Formatter::<\'_>::write_str', '<Formatter as Write>::write_str', 'Formatter::pad')
def s_formatter_write_str(E, a, info):
    v = a[1]
    txt = '<str>'
    if isinstance(v, Ptr):
        try:
            o = E.heap[v.obj].value
            if isinstance(o, Opaque) and str(o.what).startswith('str:'):
                txt = o.what[4:]
        except Exception:
            pass
    _sink(E, 'str', txt)
    return Agg('Result', 'Ok', (UNIT,))


@summ('<usize as Hash>::hash', '<*const T as Hash>::hash', '<*mut T as Hash>::hash', '<NonNull as Hash>::hash', 'core::ptr::hash', 'std::ptr::hash',
      'Hasher::write_usize', 'Hasher::write_u64', 'Hasher::write', '<*const RcBox as Hash>::hash', '<*mut RcBox as Hash>::hash', '<u64 as Hash>::hash',
      '<*const T as Debug>::fmt', '<*mut T as Debug>::fmt', '<NonNull as Debug>::fmt', '<NonNull as Pointer>::fmt', '<usize as Debug>::fmt', '<usize as Display>::fmt',
      '<*const RcBox as Debug>::fmt', '<*mut RcBox as Debug>::fmt')
def s_raw_sink_write(E, a, info):
    _sink(E, 'raw', info['key'])
    return Agg('Result', 'Ok', (UNIT,)) if 'fmt' in info['key'] else UNIT


@summ('Option::get_or_insert_with')
def s_opt_get_or_insert_with(E, a, info):
    cur = E.read(a[0])
    if cur.variant != 'Some':
        E.write(a[0], some(E.call_closure(a[1], [])))
    return a[0].field(0)


@summ('Option::get_or_insert_default')
def s_opt_get_or_insert_default(E, a, info):
    raise Unsupported('Option::get_or_insert_default')


@summ('Option::iter', 'Option::iter_mut')
def s_opt_iter(E, a, info):
    return Agg('OptIter', None, (a[0], False))


@summ('<* as Iterator>::flat_map')
def s_iter_flat_map(E, a, info):
    return Agg('FlatMapAd', None, (a[0], a[1], NONE))


@summ('<* as Iterator>::flatten')
def s_iter_flatten(E, a, info):
    return Agg('FlatMapAd', None, (a[0], NONE, NONE))


_iter_next_2 = iter_next


def iter_next(E, itptr):      # noqa: F811
    it = E.read(itptr)
    if isinstance(it, Agg) and it.name == 'OptIter':
        p, done = it.fields
        if done:
            return NONE
        E.write(itptr, Agg('OptIter', None, (p, True)))
        cur = E.read(p)
        if cur.variant == 'Some':
            return some(p.field(0))
        return NONE
    if isinstance(it, Agg) and it.name == 'FlatMapAd':
        outer, clos, inner = it.fields
        while True:
            if not (isinstance(inner, Agg) and inner.name == 'Option'):
                tmp = Ptr(E.new_obj('tmp', inner))
                r = iter_next(E, tmp)
                inner = E.read(tmp)
                E.write(itptr, Agg('FlatMapAd', None, (outer, clos, inner)))
                if r.variant == 'Some':
                    return r
                inner = NONE
            tmpo = Ptr(E.new_obj('tmp', outer))
            o = iter_next(E, tmpo)
            outer = E.read(tmpo)
            if o.variant == 'None':
                E.write(itptr, Agg('FlatMapAd', None, (outer, clos, NONE)))
                return NONE
            nxt = o.fields[0] if (isinstance(clos, Agg) and clos.name == 'Option') else E.call_closure(clos, [o.fields[0]])
            inner = s_iter_into_iter(E, [nxt], dict(key='into_iter', gen=[], frame=None, self_ty=None, callee=''))
            E.write(itptr, Agg('FlatMapAd', None, (outer, clos, inner)))
    return _iter_next_2(E, itptr)


SUMMARIES['<Iter as Iterator>::next'] = lambda E, a, info: iter_next(E, a[0])
SUMMARIES['<* as Iterator>::next'] = lambda E, a, info: iter_next(E, a[0])
SUMMARIES['<Iter as Iterator>::any'] = lambda E, a, info: s_iter_any(E, a, info)


@summ('core::slice::<impl [T]>::contains')
def s_slice_contains(E, a, info):
    kind, ref, items = _slice(E, a[0])
    key = E.read(a[1])
    E.work += len(items)
    return any(E.key_eq(x, key) for x in items)


# ------------------------------------------------------------------ more iterator adapters (so that plausible refactorings stay executable)
@summ('<* as Iterator>::take_while')
def s_iter_take_while(E, a, info):
    return Agg('TakeWhileAd', None, (a[0], a[1], False))


@summ('<* as Iterator>::skip_while')
def s_iter_skip_while(E, a, info):
    return Agg('SkipWhileAd', None, (a[0], a[1], False))


@summ('<* as Iterator>::take')
def s_iter_take(E, a, info):
    if is_sym(a[1]):
        raise Unsupported('take(symbolic)')
    return Agg('TakeAd', None, (a[0], a[1]))


@summ('<* as Iterator>::skip')
def s_iter_skip(E, a, info):
    if is_sym(a[1]):
        raise Unsupported('skip(symbolic)')
    return Agg('SkipAd', None, (a[0], a[1]))


@summ('<* as Iterator>::enumerate')
def s_iter_enumerate(E, a, info):
    return Agg('EnumerateAd', None, (a[0], 0))


@summ('<* as Iterator>::chain')
def s_iter_chain(E, a, info):
    second = s_iter_into_iter(E, [a[1]], dict(key='into_iter', gen=[], frame=None, self_ty=None, callee=''))
    return Agg('ChainAd', None, (a[0], second, False))


@summ('<* as Iterator>::inspect')
def s_iter_inspect(E, a, info):
    return Agg('InspectAd', None, (a[0], a[1]))


_iter_next_3 = iter_next
_ADAPTERS_3 = ('TakeWhileAd', 'SkipWhileAd', 'TakeAd', 'SkipAd', 'EnumerateAd', 'ChainAd', 'InspectAd')


def iter_next(E, itptr):      # noqa: F811
    it = E.read(itptr)
    if not (isinstance(it, Agg) and it.name in _ADAPTERS_3):
        return _iter_next_3(E, itptr)
    n = it.name

    def pull(inner):
        tmp = Ptr(E.new_obj('tmp', inner))
        r = iter_next(E, tmp)
        return r, E.read(tmp)
    if n == 'TakeWhileAd':
        inner, clos, done = it.fields
        if done:
            return NONE
        r, inner = pull(inner)
        if r.variant == 'None':
            E.write(itptr, Agg(n, None, (inner, clos, True)))
            return NONE
        item = Ptr(E.new_obj('tmp', r.fields[0]))
        if E.branch(E.call_closure(clos, [item])):
            E.write(itptr, Agg(n, None, (inner, clos, False)))
            return r
        E.write(itptr, Agg(n, None, (inner, clos, True)))
        return NONE
    if n == 'SkipWhileAd':
        inner, clos, started = it.fields
        while True:
            r, inner = pull(inner)
            if r.variant == 'None':
                E.write(itptr, Agg(n, None, (inner, clos, True)))
                return NONE
            if started:
                E.write(itptr, Agg(n, None, (inner, clos, True)))
                return r
            item = Ptr(E.new_obj('tmp', r.fields[0]))
            if not E.branch(E.call_closure(clos, [item])):
                E.write(itptr, Agg(n, None, (inner, clos, True)))
                return r
    if n == 'TakeAd':
        inner, k = it.fields
        if k == 0:
            return NONE
        r, inner = pull(inner)
        E.write(itptr, Agg(n, None, (inner, k - 1)))
        return r
    if n == 'SkipAd':
        inner, k = it.fields
        while k > 0:
            r, inner = pull(inner)
            k -= 1
            if r.variant == 'None':
                E.write(itptr, Agg(n, None, (inner, 0)))
                return NONE
        r, inner = pull(inner)
        E.write(itptr, Agg(n, None, (inner, 0)))
        return r
    if n == 'EnumerateAd':
        inner, k = it.fields
        r, inner = pull(inner)
        E.write(itptr, Agg(n, None, (inner, k + 1)))
        if r.variant == 'None':
            return NONE
        return some(tup(k, r.fields[0]))
    if n == 'ChainAd':
        first, second, first_done = it.fields
        if not first_done:
            r, first = pull(first)
            if r.variant == 'Some':
                E.write(itptr, Agg(n, None, (first, second, False)))
                return r
        r, second = pull(second)
        E.write(itptr, Agg(n, None, (first, second, True)))
        return r
    if n == 'InspectAd':
        inner, clos = it.fields
        r, inner = pull(inner)
        E.write(itptr, Agg(n, None, (inner, clos)))
        if r.variant == 'Some':
            E.call_closure(clos, [Ptr(E.new_obj('tmp', r.fields[0]))])
        return r


SUMMARIES['<Iter as Iterator>::next'] = lambda E, a, info: iter_next(E, a[0])
SUMMARIES['<* as Iterator>::next'] = lambda E, a, info: iter_next(E, a[0])
_into_iter_prev = SUMMARIES.get('<* as IntoIterator>::into_iter')


@summ('<HashMap as Clone>::clone', '<HashSet as Clone>::clone')
def s_map_clone(E, a, info):
    src = E.read(a[0])
    if not isinstance(src, Own):
        raise Unsupported('clone of %r' % (src,))
    so = E.heap[src.obj]
    if not so.live:
        raise UB('use-after-free', 'clone of a released table')
    md = MapData(so.value.is_set)
    o = E.new_obj('map', md, {'label': ' (table clone)'})
    md.keys = list(so.value.keys)
    md.vals = dict(so.value.vals)
    if so.value.ever_allocated:
        # hashbrown clones the bucket array of any table that is not the static empty singleton, even with no items left
        md.ever_allocated = True
        E.alloc_events += 1
        E.events.append(('alloc', 'table-buckets', o))
    return Own(o)


@summ('core::ptr::without_provenance', 'core::ptr::without_provenance_mut', 'core::ptr::invalid', 'core::ptr::invalid_mut', 'core::ptr::dangling',
      'NonNull::without_provenance')
def s_without_provenance(E, a, info):
    v = a[0] if a else None
    if isinstance(v, Agg) and v.fields:          # NonZero<usize>
        v = v.fields[0]
    if v == MASK:
        return DANGLING
    raise Unsupported('pointer without provenance from %r' % (v,))
