"""Parser for rustc's `-Zunpretty=mir` text (mir-opt-level=0) into a small AST.

Nothing here knows about cactusref: it is a parser for the MIR text language.
Unknown statement / terminator forms are kept as ('unknown', text) and make the
executor stop with exit code 2 if they are ever reached.
"""
import re
import hashlib

OPEN = '([{<'
CLOSE = ')]}>'
MATCH = {')': '(', ']': '[', '}': '{', '>': '<'}


class ParseError(Exception):
    pass


def scan_balanced(s, i, stops):
    """Return index j>=i of the first char in `stops` at nesting depth 0
    (or len(s)). Handles '->' and string literals."""
    depth = 0
    n = len(s)
    while i < n:
        c = s[i]
        if c == '"':
            i += 1
            while i < n and s[i] != '"':
                if s[i] == '\\':
                    i += 1
                i += 1
            i += 1
            continue
        if c == "'" and i + 2 < n and (s[i + 2] == "'" or (s[i + 1] == '\\' and s.find("'", i + 2) in (i + 3, i + 4, i + 5))):
            # char / byte literal
            j = s.find("'", i + 2 if s[i + 1] != '\\' else i + 3)
            i = j + 1
            continue
        if c == '-' and i + 1 < n and s[i + 1] == '>':
            i += 2
            continue
        if c == '=' and i + 1 < n and s[i + 1] == '>':
            i += 2
            continue
        if depth == 0 and c in stops:
            return i
        if c in OPEN:
            depth += 1
        elif c in CLOSE:
            if depth == 0:
                return i
            depth -= 1
        i += 1
    return n


def split_top(s, sep=','):
    out = []
    i = 0
    start = 0
    n = len(s)
    while i <= n:
        j = scan_balanced(s, i, sep)
        if j >= n:
            out.append(s[start:].strip())
            break
        if s[j] == sep:
            out.append(s[start:j].strip())
            start = j + 1
            i = j + 1
        else:
            # unbalanced closer at depth 0: skip
            i = j + 1
    return [x for x in out if x != '']


# ---------------------------------------------------------------- places

class Place:
    __slots__ = ('local', 'projs')

    def __init__(self, local, projs=()):
        self.local = local
        self.projs = tuple(projs)

    def __repr__(self):
        return 'Place(_%d%s)' % (self.local, ''.join(str(p) for p in self.projs))


def parse_place(s):
    s = s.strip()
    pl, i = _place(s, 0)
    if s[i:].strip():
        raise ParseError('trailing in place: %r' % s)
    return pl


def _place(s, i):
    n = len(s)
    if s[i] == '(':
        if s[i + 1] == '*':
            inner, j = _place(s, i + 2)
            if s[j] != ')':
                raise ParseError('deref close: %r' % s)
            pl = Place(inner.local, inner.projs + (('deref',),))
            j += 1
        else:
            inner, j = _place(s, i + 1)
            if s.startswith(' as ', j):
                k = s.index(')', j)
                pl = Place(inner.local, inner.projs + (('downcast', s[j + 4:k].strip()),))
                j = k + 1
            elif s[j] == '.':
                m = re.match(r'\.(\d+): ', s[j:])
                if not m:
                    raise ParseError('field: %r' % s[j:])
                idx = int(m.group(1))
                tstart = j + m.end()
                k = scan_balanced(s, tstart, ')')
                ty = s[tstart:k].strip()
                pl = Place(inner.local, inner.projs + (('field', idx, ty),))
                j = k + 1
            else:
                raise ParseError('place: %r at %d' % (s, j))
    elif s[i] == '_':
        m = re.match(r'_(\d+)', s[i:])
        pl = Place(int(m.group(1)))
        j = i + m.end()
    else:
        raise ParseError('place start: %r' % s[i:])
    while j < n and s[j] == '[':
        k = scan_balanced(s, j + 1, ']')
        inside = s[j + 1:k]
        m = re.match(r'_(\d+)$', inside)
        if m:
            pl = Place(pl.local, pl.projs + (('index', int(m.group(1))),))
        else:
            m = re.match(r'(\d+) of (\d+)$', inside)
            if not m:
                raise ParseError('index: %r' % inside)
            pl = Place(pl.local, pl.projs + (('constindex', int(m.group(1))),))
        j = k + 1
    return pl, j


# ---------------------------------------------------------------- operands / rvalues

def parse_operand(s):
    s = s.strip()
    if s.startswith('no_retag '):
        s = s[len('no_retag '):]
    if s.startswith('copy '):
        return ('copy', parse_place(s[5:]))
    if s.startswith('move '):
        return ('move', parse_place(s[5:]))
    if s.startswith('const '):
        return ('const', s[6:].strip())
    if re.match(r'^[A-Za-z_<{]', s):
        return ('fnitem', s)
    raise ParseError('operand: %r' % s)


BINOPS = ('Eq', 'Ne', 'Lt', 'Le', 'Gt', 'Ge', 'Add', 'Sub', 'Mul', 'Div', 'Rem',
          'AddWithOverflow', 'SubWithOverflow', 'MulWithOverflow', 'BitAnd', 'BitOr',
          'BitXor', 'Shl', 'Shr', 'Offset', 'AddUnchecked', 'SubUnchecked', 'Cmp')
UNOPS = ('Not', 'Neg', 'PtrMetadata')


def parse_rvalue(s):
    s = s.strip()
    if s.startswith('no_retag '):
        s = s[len('no_retag '):]
    # references
    for pre, kind in (('&raw const ', 'rawref'), ('&raw mut ', 'rawref'), ('&mut ', 'ref'),
                      ('&fake shallow ', 'ref'), ('&', 'ref')):
        if s.startswith(pre):
            rest = s[len(pre):]
            if rest.startswith('(') or rest.startswith('_'):
                try:
                    return (kind, parse_place(rest))
                except ParseError:
                    pass
    m = re.match(r'discriminant\((.*)\)$', s)
    if m:
        return ('discriminant', parse_place(m.group(1)))
    m = re.match(r'Len\((.*)\)$', s)
    if m:
        return ('len', parse_place(m.group(1)))
    m = re.match(r'CopyForDeref\((.*)\)$', s)
    if m:
        return ('use', ('copy', parse_place(m.group(1))))
    m = re.match(r'([A-Za-z]+)\((.*)\)$', s)
    if m and m.group(1) in BINOPS:
        a, b = split_top(m.group(2))
        return ('binop', m.group(1), parse_operand(a), parse_operand(b))
    if m and m.group(1) in UNOPS:
        return ('unop', m.group(1), parse_operand(m.group(2)))
    # operand or cast
    if s.startswith(('copy ', 'move ', 'const ')):
        m = re.match(r'(.*) as (.*) \((\w+(?:\([^)]*\))?)\)$', s)
        if m:
            try:
                return ('cast', m.group(3), parse_operand(m.group(1)), m.group(2).strip())
            except ParseError:
                pass
        return ('use', parse_operand(s))
    # aggregates
    if s == '()':
        return ('tuple', [])
    if s.startswith('(') and s.endswith(')'):
        inner = s[1:-1]
        return ('tuple', [parse_operand(x) for x in split_top(inner)])
    if s.startswith('[') and s.endswith(']'):
        inner = s[1:-1]
        if ';' in inner and scan_balanced(inner, 0, ';') < len(inner):
            k = scan_balanced(inner, 0, ';')
            return ('repeat', parse_operand(inner[:k]), inner[k + 1:].strip())
        return ('array', [parse_operand(x) for x in split_top(inner)])
    if s.startswith('{closure@') and s.endswith('}') and scan_balanced(s, 1, '}') == len(s) - 1:
        return ('unit', s)
    # struct-like:  Path { a: op, b: op }   /  {closure@...} { cap: op }  / Path::Variant(op, ..) / Path (unit)
    if s.endswith('}'):
        # find the opening brace of the field list: the last top-level ' { '
        # scan from the left for top-level '{' that is preceded by space and is not the closure type
        idx = _find_fields_brace(s)
        if idx is not None:
            name = s[:idx].strip()
            body = s[idx + 1:-1].strip()
            fields = []
            for part in split_top(body):
                k = part.index(':')
                fields.append((part[:k].strip(), parse_operand(part[k + 1:])))
            return ('struct', name, fields)
    if s.endswith(')'):
        # Variant(op, ...)
        k = _find_call_paren(s)
        if k is not None:
            name = s[:k].strip()
            ops = [parse_operand(x) for x in split_top(s[k + 1:-1])]
            return ('variant', name, ops)
    if re.match(r'^[A-Za-z_<{\[(&*]', s):
        return ('unit', s)
    raise ParseError('rvalue: %r' % s)


def _find_fields_brace(s):
    # position of the '{' whose matching '}' is the final char
    depth = 0
    i = len(s) - 1
    while i >= 0:
        c = s[i]
        if c in CLOSE:
            if c == '>' and i > 0 and s[i - 1] in '-=':
                i -= 2
                continue
            depth += 1
        elif c in OPEN:
            depth -= 1
            if depth == 0:
                return i if c == '{' else None
        i -= 1
    return None


def _find_call_paren(s):
    depth = 0
    i = len(s) - 1
    while i >= 0:
        c = s[i]
        if c in CLOSE:
            if c == '>' and i > 0 and s[i - 1] in '-=':
                i -= 2
                continue
            depth += 1
        elif c in OPEN:
            depth -= 1
            if depth == 0:
                return i if c == '(' else None
        i -= 1
    return None


# ---------------------------------------------------------------- statements / terminators

def parse_unwind(s):
    s = s.strip()
    if s.startswith('unwind: '):
        return ('bb', int(s[len('unwind: bb'):]))
    if s.startswith('unwind continue'):
        return ('continue',)
    if s.startswith('unwind terminate'):
        return ('terminate',)
    if s.startswith('unwind unreachable'):
        return ('unreachable',)
    raise ParseError('unwind: %r' % s)


def parse_targets(s):
    """'[return: bb1, unwind: bb2]' or 'unwind continue' ->  (ret_bb|None, unwind)"""
    s = s.strip()
    if s.startswith('['):
        parts = split_top(s[1:-1])
        ret = None
        unw = ('continue',)
        for p in parts:
            if p.startswith('return: bb') or p.startswith('success: bb'):
                ret = int(p.split('bb')[1])
            else:
                unw = parse_unwind(p)
        return ret, unw
    if re.match(r'bb\d+$', s):
        return None, ('maybe', int(s[2:]))
    return None, parse_unwind(s)


def parse_line(line):
    """Parse one statement or terminator line (without trailing ';')."""
    s = line.strip()
    if s.endswith(';'):
        s = s[:-1]
    if s.startswith('StorageLive(') or s.startswith('StorageDead('):
        return ('storage', s.startswith('StorageLive'), int(s[s.index('_') + 1:-1]))
    if s == 'nop' or s.startswith(('FakeRead(', 'PlaceMention(', 'AscribeUserType(', 'Retag(', 'Coverage', 'ConstEvalCounter', 'BackwardIncompatibleDropHint')):
        return ('nop',)
    if s == 'return':
        return ('return',)
    if s == 'resume':
        return ('resume',)
    if s == 'unreachable':
        return ('unreachable',)
    if s.startswith('terminate('):
        return ('terminate',)
    if s.startswith('goto -> bb'):
        return ('goto', int(s[len('goto -> bb'):]))
    if s.startswith('switchInt('):
        k = scan_balanced(s, len('switchInt('), ')')
        op = parse_operand(s[len('switchInt('):k])
        rest = s[k + 1:].strip()
        assert rest.startswith('-> ['), s
        arms = []
        other = None
        for p in split_top(rest[4:-1]):
            a, b = p.rsplit(':', 1)
            bb = int(b.strip()[2:])
            if a.strip() == 'otherwise':
                other = bb
            else:
                arms.append((int(a.strip()), bb))
        return ('switch', op, arms, other)
    if s.startswith('drop('):
        k = scan_balanced(s, 5, ')')
        pl = parse_place(s[5:k])
        rest = s[k + 1:].strip()
        assert rest.startswith('->'), s
        ret, unw = parse_targets(rest[2:])
        return ('drop', pl, ret, unw)
    if s.startswith('assert('):
        k = scan_balanced(s, 7, ')')
        parts = split_top(s[7:k])
        cond = parts[0]
        neg = False
        if cond.startswith('!'):
            neg = True
            cond = cond[1:]
        rest = s[k + 1:].strip()
        ret, unw = parse_targets(rest[2:])
        return ('assert', neg, parse_operand(cond), parts[1] if len(parts) > 1 else '', ret, unw)
    # assignment or call
    k = scan_balanced(s, 0, '=')
    # avoid '==' (does not occur) ; find ' = '
    eq = _find_assign(s)
    if eq is None:
        # call without destination?  e.g.  `abort() -> unwind continue`
        arrow = _find_arrow(s)
        if arrow is not None:
            callee, args = _split_call(s[:arrow].strip())
            ret, unw = parse_targets(s[arrow + 2:])
            return ('call', None, callee, args, ret, unw)
        return ('unknown', s)
    lhs = s[:eq].strip()
    rhs = s[eq + 3:].strip()
    arrow = _find_arrow(rhs)
    if arrow is not None:
        callee, args = _split_call(rhs[:arrow].strip())
        ret, unw = parse_targets(rhs[arrow + 2:])
        return ('call', parse_place(lhs), callee, args, ret, unw)
    try:
        return ('assign', parse_place(lhs), parse_rvalue(rhs))
    except ParseError as e:
        return ('unknown', s + '   [' + str(e) + ']')


def _find_assign(s):
    i = scan_balanced(s, 0, '=')
    while i < len(s):
        if s[i] == '=' and s[i - 1] == ' ' and s[i + 1] == ' ':
            return i - 1
        i = scan_balanced(s, i + 1, '=')
    return None


def _find_arrow(s):
    """index of top-level ' -> ' that introduces targets ([..] or unwind ..)"""
    i = 0
    n = len(s)
    depth = 0
    last = None
    while i < n:
        c = s[i]
        if c == '"':
            i += 1
            while i < n and s[i] != '"':
                if s[i] == '\\':
                    i += 1
                i += 1
            i += 1
            continue
        if c == '-' and i + 1 < n and s[i + 1] == '>':
            if depth == 0 and (s[i + 2:].lstrip().startswith('[') or s[i + 2:].lstrip().startswith('unwind') or re.match(r'bb\d+$', s[i + 2:].strip())):
                last = i
            i += 2
            continue
        if c in OPEN:
            depth += 1
        elif c in CLOSE:
            depth -= 1
        i += 1
    return last


def _split_call(s):
    k = _find_call_paren(s)
    if k is None:
        raise ParseError('call: %r' % s)
    callee = s[:k].strip()
    args = [parse_operand(x) for x in split_top(s[k + 1:-1])]
    return callee, args


# ---------------------------------------------------------------- bodies

class Body:
    def __init__(self, name, header):
        self.name = name
        self.header = header
        self.args = []        # list of (local, type)
        self.ret_type = None
        self.local_types = {}  # local -> type string
        self.blocks = {}      # bb -> {'cleanup':bool, 'stmts':[raw lines], 'parsed':None}
        self.text = []
        self.is_promoted = False

    def digest(self):
        return hashlib.sha256('\n'.join(self.text).encode()).hexdigest()[:12]

    def block(self, bb):
        b = self.blocks[bb]
        if b['parsed'] is None:
            b['parsed'] = [parse_line(l) for l in b['stmts']]
        return b['parsed']


def parse_mir(text):
    bodies = {}
    lines = text.split('\n')
    i = 0
    n = len(lines)
    skip_ctfe = False
    while i < n:
        line = lines[i]
        if line.startswith('// MIR FOR CTFE'):
            skip_ctfe = True
            i += 1
            continue
        m = re.match(r'^(fn|const|static) (.*) \{\s*$', line) if (line.startswith('fn ') or line.startswith('const ') or line.startswith('static ')) else None
        if m is None and re.match(r'^\S.*::\{constant#\d+\}: .* = \{\s*$', line):
            # inline const block of a named constant: `NAME::{constant#0}: usize = {`
            line = 'const ' + line
            lines[i] = line
            m = re.match(r'^(fn|const|static) (.*) \{\s*$', line)
        if m and not (line.startswith('const ') and ' = {' not in line and '::promoted[' not in line):
            # collect until a line that is exactly '}'
            j = i + 1
            while j < n and lines[j] != '}':
                j += 1
            chunk = lines[i:j + 1]
            if not skip_ctfe:
                b = _parse_body(chunk)
                bodies[b.name] = b
            skip_ctfe = False
            i = j + 1
            continue
        i += 1
    return bodies


def _parse_body(chunk):
    header = chunk[0]
    if header.startswith('fn '):
        h = header[3:]
        k = _fn_args_paren(h)
        name = h[:k]
        close = scan_balanced(h, k + 1, ')')
        argstr = h[k + 1:close]
        rest = h[close + 1:].strip()
        b = Body(name, header)
        for a in split_top(argstr):
            mm = re.match(r'_(\d+): (.*)$', a)
            b.args.append((int(mm.group(1)), mm.group(2)))
            b.local_types[int(mm.group(1))] = mm.group(2)
        if rest.startswith('->'):
            b.ret_type = rest[2:].rstrip('{').strip()
    else:
        # const NAME: TYPE = {
        mm = re.match(r'^(?:const|static) (.*::promoted\[\d+\]): (.*) = \{\s*$', header)
        if not mm:
            mm = re.match(r'^(?:const|static) (.*?): (.*) = \{\s*$', header)
        b = Body(mm.group(1), header)
        b.ret_type = mm.group(2)
        b.is_promoted = '::promoted[' in mm.group(1)
        b.is_const = True
    b.text = chunk
    cur = None
    for line in chunk[1:]:
        s = line.strip()
        if not s or s == '}':
            if s == '}' and cur is not None and line.startswith('    }'):
                cur = None
            continue
        mm = re.match(r'^let (?:mut )?_(\d+): (.*);$', s)
        if mm and cur is None:
            b.local_types[int(mm.group(1))] = mm.group(2)
            continue
        if cur is None and (s.startswith('debug ') or s.startswith('scope ')):
            continue
        mm = re.match(r'^bb(\d+)( \(cleanup\))?: \{$', s)
        if mm:
            cur = int(mm.group(1))
            b.blocks[cur] = {'cleanup': bool(mm.group(2)), 'stmts': [], 'parsed': None}
            continue
        if cur is not None:
            b.blocks[cur]['stmts'].append(s)
    return b


def _fn_args_paren(h):
    """index of the '(' that opens the argument list of a `fn NAME(ARGS) -> RET {` header.
    NAME may itself contain parens/angles (impl paths), so find the first top-level '(' followed by '_N:' or ')'."""
    i = 0
    n = len(h)
    depth = 0
    while i < n:
        c = h[i]
        if c == '(' and depth == 0 and (h[i + 1] == ')' or re.match(r'_\d+: ', h[i + 1:])):
            return i
        if c == '-' and h[i + 1] == '>':
            i += 2
            continue
        if c in OPEN:
            depth += 1
        elif c in CLOSE:
            depth -= 1
        i += 1
    raise ParseError('fn header: %r' % h)
