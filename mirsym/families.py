"""Scenario families: enumerate object-graph shapes and histories as scripts.

A shape is a list of edges (owner i, target j, recorded?, same_handle?) over N objects.
Everything structural is enumerated; the counters (extra strong / Weak handles per
object) are symbolic 64-bit variables decided by the solver on each path."""
import itertools
import random


def H(i):
    return 'h%d' % i


def build_ops(n, edges, extras=True, wextras=False, weak_edges=(), names=None):
    """build phase: objects, symbolic extras, edges"""
    ops = []
    for i in range(n):
        ops.append({'op': 'new', 'obj': i, 'as': H(i)})
    if extras:
        for i in range(n):
            ops.append({'op': 'extras', 'h': H(i), 'n': 'e%d' % i})
    if wextras:
        for i in range(n):
            ops.append({'op': 'wextras', 'h': H(i), 'n': 'w%d' % i})
    t = 0
    for (i, j, rec, same) in edges:
        if same == 'noop':
            # adopt(&h, &h) through the very same handle and nothing stored (upstream's "no effect" self adoption)
            ops.append({'op': 'adopt', 'a': H(i), 'b': H(i)})
            continue
        if same:
            # adopt(&h, &h) through the very same handle, then a self handle is stored
            ops.append({'op': 'adopt', 'a': H(i), 'b': H(i)})
            ops.append({'op': 'clone', 'h': H(i), 'as': 't%d' % t})
        else:
            ops.append({'op': 'clone', 'h': H(j), 'as': 't%d' % t})
            if rec:
                ops.append({'op': 'adopt', 'a': H(i), 'b': 't%d' % t})
        ops.append({'op': 'store', 'via': H(i), 'h': 't%d' % t})
        t += 1
    w = 0
    for (i, j) in weak_edges:
        ops.append({'op': 'downgrade', 'h': H(j), 'as': 'tw%d' % w})
        ops.append({'op': 'store_weak', 'via': H(i), 'w': 'tw%d' % w})
        w += 1
    return ops


def canon(n, edges):
    """canonical form of a shape under object renaming"""
    best = None
    for p in itertools.permutations(range(n)):
        e = tuple(sorted(((p[i], p[j], r, s) for (i, j, r, s) in edges), key=str))
        if best is None or str(e) < str(best):
            best = e
    return best


def pair_options(max_mult, recorded_only=False, allow_unrecorded=True):
    """options for an ordered pair i!=j: tuple of (rec, same) per parallel edge"""
    opts = [()]
    for m in range(1, max_mult + 1):
        for r in range(0, m + 1):
            if recorded_only and r != m:
                continue
            if not allow_unrecorded and r != m:
                continue
            opts.append(tuple([(True, False)] * r + [(False, False)] * (m - r)))
    return opts


def self_options(allow_same=True, allow_unrecorded=True, recorded_only=False, allow_noop=False):
    o = [()]
    if allow_unrecorded and not recorded_only:
        o.append(((False, False),))
    o.append(((True, False),))
    if allow_same:
        o.append(((True, True),))
    if allow_noop:
        o.append(((True, 'noop'),))
        o.append(((True, 'noop'), (True, 'noop')))
    return o


def shapes(n, max_mult=1, max_edges=None, recorded_only=False, allow_same=True, self_edges=True, connected=True, allow_noop=False):
    """all shapes over n objects up to symmetry"""
    pairs = [(i, j) for i in range(n) for j in range(n) if i != j]
    selfs = [(i, i) for i in range(n)] if self_edges else []
    popts = pair_options(max_mult, recorded_only)
    sopts = self_options(allow_same, recorded_only=recorded_only, allow_noop=allow_noop)
    seen = set()
    out = []
    for combo in itertools.product(*([popts] * len(pairs) + [sopts] * len(selfs))):
        edges = []
        for (i, j), c in zip(pairs + selfs, combo):
            for (r, s) in c:
                edges.append((i, j, r, s))
        if max_edges is not None and len(edges) > max_edges:
            continue
        if connected and n > 1 and not is_connected(n, edges):
            continue
        c = canon(n, edges)
        if c in seen:
            continue
        seen.add(c)
        out.append(list(c))
    return out


def is_connected(n, edges):
    adj = {i: set() for i in range(n)}
    for (i, j, r, s) in edges:
        adj[i].add(j)
        adj[j].add(i)
    seen = {0}
    st = [0]
    while st:
        x = st.pop()
        for y in adj[x]:
            if y not in seen:
                seen.add(y)
                st.append(y)
    return len(seen) == n


def drop_sequences(n, maxlen, with_extra=False):
    letters = [('h', i) for i in range(n)]
    if with_extra:
        letters += [('x', i) for i in range(n)]
    out = []
    for L in range(1, maxlen + 1):
        for seq in itertools.permutations(letters, L):
            # dropping h_i twice is impossible; an extra may be dropped before or after h_i
            out.append(seq)
    # only maximal sequences are needed when oracles are evaluated after every op
    mx = [s for s in out if len(s) == min(maxlen, len(letters))]
    return mx


def drop_ops(seq):
    ops = []
    for (k, i) in seq:
        if k == 'h':
            ops.append({'op': 'drop', 'h': H(i)})
        else:
            ops.append({'op': 'drop_extra', 'obj': i})
    return ops


def named_shapes(n):
    """named N-object families (ring, ring+chord, clique, two rings sharing a member, ring+tail)"""
    R = lambda i, j: (i, j, True, False)
    out = {}
    ring = [R(i, (i + 1) % n) for i in range(n)]
    out['ring%d' % n] = ring
    if n >= 3:
        out['ring%d+chord' % n] = ring + [R(0, 2)]
        out['clique%d' % n] = [R(i, j) for i in range(n) for j in range(n) if i != j]
        out['ring%d+tail' % (n - 1)] = [R(i, (i + 1) % (n - 1)) for i in range(n - 1)] + [R(n - 2, n - 1)]
        out['ring%d+selfclone' % n] = ring + [(0, 0, True, False)]
        out['ring%d+selfsame' % n] = ring + [(0, 0, True, True)]
        # an outside owner that has adopted a member of a ring (it is not part of the cycle itself)
        out['owner-of-ring%d' % (n - 1)] = [R(0, 1)] + [R(1 + i, 1 + (i + 1) % (n - 1)) for i in range(n - 1)]
    if n >= 3:
        # groups one of whose members has adopted a leaf (an object that adopts nothing and may be held from outside)
        m = n - 1
        rg = [R(i, (i + 1) % m) for i in range(m)]
        out['ring%d+leaf' % m] = rg + [R(0, m)]
        out['ring%d-all-selfsame+leaf' % m] = rg + [(i, i, True, True) for i in range(m)] + [R(0, m)]
        out['ring%d-all-selfclone+leaf' % m] = rg + [(i, i, True, False) for i in range(m)] + [R(0, m)]
    if n >= 4:
        # two rings sharing member 0: 0-1 and 0-2-3
        out['tworings%d' % n] = [R(0, 1), R(1, 0), R(0, 2), R(2, 3), R(3, 0)]
    return out


def describe(n, edges):
    parts = []
    for (i, j, r, s) in edges:
        parts.append('%d%s%d' % (i, '=>' if r and not s else ('~noop~' if s == 'noop' else ('~>' if s else '->')), j))
    return 'N%d[%s]' % (n, ' '.join(parts))
