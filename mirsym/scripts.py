"""Script language helpers: JSON <-> runner text, native execution, trace normalisation."""
import json
import os
import subprocess

ARG_ORDER = {
    'new': ['obj', 'as'], 'clone': ['h', 'as'], 'drop': ['h'], 'extras': ['h', 'n'], 'drop_extra': ['obj'],
    'wextras': ['h', 'n'], 'drop_wextra': ['obj'], 'store': ['via', 'h'], 'take': ['via', 'slot', 'as'],
    'store_weak': ['via', 'w'], 'take_weak': ['via', 'slot', 'as'], 'adopt': ['a', 'b'], 'unadopt': ['a', 'b'],
    'downgrade': ['h', 'as'], 'weak_new': ['as'], 'upgrade': ['w', 'as'], 'wclone': ['w', 'as'], 'wdrop': ['w'],
    'strong_count': ['h'], 'weak_count': ['h'], 'w_strong_count': ['w'], 'w_weak_count': ['w'],
    'ptr_eq': ['a', 'b'], 'w_ptr_eq': ['a', 'b'], 'deref': ['h'], 'try_unwrap': ['h', 'as'], 'drop_value': ['v'],
    'get_mut': ['h'], 'make_mut': ['h'], 'into_raw': ['h', 'as'], 'as_ptr': ['h', 'as'], 'from_raw': ['r', 'as'],
    'inc_strong': ['r'], 'dec_strong': ['r'], 'w_into_raw': ['w', 'as'], 'w_from_raw': ['r', 'as'],
    'on_drop_panic': ['obj'], 'note': [], 'links': ['h'], 'clone_mode': ['mode'], 'new_from': ['obj', 'as'], 'new_from_box': ['obj', 'as'], 'eq': ['a', 'b'], 'ne': ['a', 'b'], 'lt': ['a', 'b'], 'le': ['a', 'b'], 'gt': ['a', 'b'], 'ge': ['a', 'b'], 'cmp': ['a', 'b'], 'partial_cmp': ['a', 'b'], 'drop_any': ['h'], 'cost_clone': ['h', 'as'], 'cost_drop': ['h'], 'drop_if': ['h'], 'drop_all_wextras': ['obj'],
    'self_take': ['slot', 'as'], 'self_take_weak': ['slot', 'as'],
    'drop_via_raw': ['h'], 'upgrade_if': ['w'], 'wdrop_if': ['w'],
    'hash': ['h'], 'fmt_display': ['h'], 'fmt_debug': ['h'], 'fmt_pointer': ['h'], 'wfmt_debug': ['w'],
}


def op_text(op, out, indent=''):
    k = op['op']
    if k == 'on_drop':
        out.append('%son_drop %d {' % (indent, op['obj']))
        for o in op['do']:
            op_text(o, out, indent + '  ')
        out.append(indent + '}')
        return
    if k == 'catch':
        out.append(indent + 'catch {')
        for o in op['do']:
            op_text(o, out, indent + '  ')
        out.append(indent + '}')
        return
    args = []
    for a in ARG_ORDER[k]:
        v = op.get(a)
        if v is None:
            v = '-'
        args.append(str(v))
    out.append(indent + ' '.join([k] + args))


def to_text(script, name='script'):
    out = ['=== ' + name]
    for op in script['ops']:
        op_text(op, out)
    return '\n'.join(out) + '\n'


def parse_native_lines(lines):
    return parse_native('=== x\n' + '\n'.join(lines) + '\n# done\n')['x']['trace']


def parse_native(text):
    """-> {name: {'trace': [...], 'end': str}}"""
    res = {}
    cur = None
    eager = []
    for line in text.split('\n'):
        if line.startswith('> '):
            eager.append(line[2:])
            continue
        if line.startswith('=== '):
            eager = []
            cur = {'trace': [], 'end': None}
            res[line[4:].strip()] = cur
            continue
        if cur is None or not line.strip():
            continue
        if line.startswith('# '):
            cur['end'] = line[2:]
            continue
        w = line.split()
        if w[0] == 'dtor':
            cur['trace'].append(['dtor', int(w[1])])
        elif w[0] == 'tclone':
            cur['trace'].append(['tclone', int(w[1])])
        elif w[0] == 'tcmp':
            cur['trace'].append(['tcmp', w[1], int(w[2]), int(w[3])])
        elif w[0] == 'ret':
            v = w[2] if len(w) > 2 else None
            if w[1] in ('eq', 'ne', 'lt', 'le', 'gt', 'ge', 'cmp', 'partial_cmp', 'hash', 'fmt_display', 'fmt_debug', 'fmt_pointer', 'wfmt_debug'):
                pass
            elif v is not None and v.isdigit():
                v = int(v)
            elif v == 'true':
                v = True
            elif v == 'false':
                v = False
            cur['trace'].append(['ret', w[1], v])
        elif w[0] == 'uncaught-panic':
            cur['trace'].append(['uncaught-panic'])
        else:
            cur['trace'].append(['raw', line])
    if eager:
        # a process that died before its script ended has printed no complete block: what it had printed so far
        # (eager lines) is the trace prefix of the last script
        last = None
        for nm in res:
            last = nm
        if last is None or (res[last]['end'] is None and not res[last]['trace']):
            sub = parse_native_lines(eager)
            res[last or 'replay'] = {'trace': sub, 'end': None, 'partial': True}
    return res


def normalise(trace):
    """destruction order inside one collected group is layout dependent: sort runs of dtor entries"""
    out = []
    run = []
    for t in trace:
        if t[0] == 'dtor':
            run.append(t)
        else:
            if t[0] in ('tmethod', 'cost', 'op'):
                continue
            if t[0] == 'ret' and t[1] in ('cost_clone', 'cost_drop'):
                continue
            out.extend(sorted(run))
            run = []
            out.append(list(t))
    out.extend(sorted(run))
    return out


class Native:
    """builds and runs /verif/native against the current /repo working tree"""

    def __init__(self, scratch, verif_dir='/verif'):
        self.scratch = scratch
        self.verif = verif_dir
        self.bin = None

    def build(self):
        env = dict(os.environ)
        env['RUSTUP_TOOLCHAIN'] = 'nightly'
        env['CARGO_NET_OFFLINE'] = 'true'
        env['CARGO_TARGET_DIR'] = os.path.join(self.scratch, 'native-target')
        env['RUSTFLAGS'] = '--cfg cactusref_verif'
        r = subprocess.run(['cargo', 'build', '--offline', '--quiet'], cwd=os.path.join(self.verif, 'native'),
                           env=env, capture_output=True, text=True)
        if r.returncode != 0:
            raise RuntimeError('native runner build failed:\n' + r.stderr[-4000:])
        self.bin = os.path.join(env['CARGO_TARGET_DIR'], 'debug', 'vrunner')
        return self.bin

    def run_each(self, named_scripts, seed=0, timeout=120):
        """run a batch; when the process dies inside one script, keep that script's partial trace (marked crashed) and
        continue with the scripts after it in a fresh process"""
        out = {}
        rest = list(named_scripts)
        while rest:
            res, rc, err = self.run(rest, seed=seed, timeout=timeout, eager=True)
            done = [n for n, _ in rest if n in res and res[n].get('end') is not None]
            for n in done:
                out[n] = res[n]
            if len(done) == len(rest):
                break
            # the first script without a complete block is the one that crashed
            idx = next(i for i, (n, _) in enumerate(rest) if n not in out)
            n = rest[idx][0]
            part = res.get(n) or {'trace': [], 'end': None}
            part['crashed'] = rc
            out[n] = part
            rest = rest[idx + 1:]
        return out

    def run(self, named_scripts, seed=0, timeout=120, eager=False):
        """named_scripts: list of (name, script) -> parsed results; a crash/abort is reported per batch"""
        path = os.path.join(self.scratch, 'batch-%d-%d.txt' % (os.getpid(), abs(hash(tuple(n for n, _ in named_scripts))) % 10**9))
        with open(path, 'w') as f:
            for n, s in named_scripts:
                f.write(to_text(s, n))
        r = subprocess.run([self.bin, path, str(seed)] + (['eager'] if eager else []), capture_output=True, text=True, timeout=timeout)
        os.unlink(path)
        res = parse_native(r.stdout)
        return res, r.returncode, r.stderr
