"""Layout models: how link tables / the trace result map iterate.

RankLayout: one total order on (object, kind) keys, shared by every table of the path
            (what an address-determined hash order looks like when tables have equal capacity).
ForkLayout: every table gets its own order; the position of each key is a structural fork
            (exhaustive over per-table orders; expensive, used on small shapes).
"""
import itertools

KINDS = ('Forward', 'Backward', 'Loopback')


class RankLayout:
    def __init__(self, objperm=None, kindperm=(0, 1, 2), major='obj', reverse=False):
        self.objperm = objperm
        self.kindperm = kindperm
        self.major = major
        self.reverse = reverse

    def describe(self):
        return 'rank(obj=%s,kind=%s,%s-major%s)' % (self.objperm, self.kindperm, self.major, ',rev' if self.reverse else '')

    def rank(self, E, key):
        kind, tgt = E.hooks.key_desc(key)
        if not isinstance(tgt, int):
            tgt = 99
        o = self.objperm[tgt] if self.objperm and tgt < len(self.objperm) else tgt
        k = self.kindperm[KINDS.index(kind)] if kind in KINDS else 9
        return (o, k) if self.major == 'obj' else (k, o)

    def order(self, E, oid, keys):
        return sorted(keys, key=lambda k: self.rank(E, k), reverse=self.reverse)

    def insert_pos(self, E, oid, keys, key):
        return len(keys)


class ForkLayout:
    """per-table independent orders, enumerated by forking on the position of each new key"""

    def describe(self):
        return 'fork(per-table orders, all)'

    def order(self, E, oid, keys):
        md = E.heap[oid].value
        memo = getattr(md, 'order_memo', [])
        known = [k for k in memo if k in md.vals]
        for k in keys:
            if k not in known:
                pos = E.choose(len(known) + 1, 'table order')
                known.insert(pos, k)
        md.order_memo = known
        return list(known)

    def insert_pos(self, E, oid, keys, key):
        return len(keys)


def rank_layouts(n, tier, seed=0):
    """list of factories"""
    import random
    ident = tuple(range(max(n, 1)))
    outs = [lambda: None,
            lambda: RankLayout(ident, (0, 1, 2), 'obj', True)]
    rnd = random.Random(1000 + seed)
    allp = [(op, kp, mj) for op in itertools.permutations(range(n)) for kp in itertools.permutations(range(3)) for mj in ('obj', 'kind')]
    if tier == 'quick':
        picks = rnd.sample(allp, min(2, len(allp)))
    else:
        picks = allp if len(allp) <= 72 else rnd.sample(allp, 72)
    for (op, kp, mj) in picks:
        outs.append((lambda op=op, kp=kp, mj=mj: RankLayout(op, kp, mj)))
    return outs
