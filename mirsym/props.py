"""Per-property families, bounds, vacuity witnesses, classifier of counterexample causes."""
import itertools
import re
import random
import families as F
from families import H

COMMON_ASSUMPTIONS = [
    'MIR of the crate dumped from /repo\'s working tree with -Zmir-opt-level=0, debug-assertions=off, overflow-checks=on, --cfg cactusref_verif',
    'external callees (core/alloc/hashbrown/log) are summarised (mirsym/summaries.py); the summaries used by this run are listed under coverage.summaries_used',
    'hashbrown tables are finite maps whose key equality is the crate\'s own <Link as PartialEq>::eq MIR; iteration order comes from the layout model',
    'allocation never fails; log::max_level() is Off (no logger installed); T is an opaque token whose destructor / Clone are driver call-backs',
    'counter generalisation: k additional program-held handles are introduced by adding a symbolic k to the counter (justified by the clone/downgrade lemmas checked in C06/C16)',
]


def std_layouts(n, tier, seed):
    rnd = random.Random(7000 + seed)
    out = [None, ('rank', tuple(range(n)), (0, 1, 2), 'obj', True)]
    allp = [('rank', op, kp, mj, False) for op in itertools.permutations(range(n)) for kp in itertools.permutations(range(3)) for mj in ('obj', 'kind')]
    k = 2 if tier == 'quick' else min(len(allp), 10)
    out += rnd.sample(allp, min(k, len(allp)))
    return out


def graph_items(prop, tier, seed, oracles, *, max_mult_q=1, opts=None, tags=(), wextras=False, recorded_only=False,
                with_extra_drops=False, weak_obs=False, end_all=False, n3_edges_q=3, n3_edges_t=4, noop=False):
    """the shared shape universe: N<=2 complete, N=3 with few edges, named N=4 families (thorough)"""
    items = []

    def add(n, edges, name, layouts):
        base = F.build_ops(n, edges, extras=True, wextras=wextras)
        seqs = F.drop_sequences(n, n, with_extra=with_extra_drops and n <= 2)
        if with_extra_drops and n <= 2:
            # orders that interleave drops of extra handles: all plain orders plus a seeded sample of the rest
            seqs = F.drop_sequences(n, n + 1, with_extra=True)
            rs = random.Random('%s|%s|%d' % (prop, name, seed))
            seqs = rs.sample(seqs, min(len(seqs), 4 if tier == 'quick' else 24))
        for seq in seqs:
            ops = list(base)
            if weak_obs:
                for i in range(n):
                    ops.append({'op': 'downgrade', 'h': H(i), 'as': 'w%d' % i})
            for (k, i) in seq:
                ops += F.drop_ops([(k, i)])
                if weak_obs:
                    for j in range(n):
                        ops.append({'op': 'upgrade', 'w': 'w%d' % j})
                        ops.append({'op': 'w_strong_count', 'w': 'w%d' % j})
                        ops.append({'op': 'w_weak_count', 'w': 'w%d' % j})
            if end_all:
                pass
            items.append(dict(prop=prop, name='%s drops=%s' % (name, ''.join('%s%d' % s for s in seq)), script={'ops': ops},
                              sym=True, oracles=set(oracles), opts=dict(opts or {}), layouts=layouts, tags=list(tags)))

    for n in (1, 2):
        for e in F.shapes(n, max_mult=(max_mult_q if tier == 'quick' else 2), recorded_only=recorded_only, allow_noop=noop):
            add(n, e, F.describe(n, e), std_layouts(n, tier, seed))
    mx = n3_edges_q if tier == 'quick' else n3_edges_t
    for e in F.shapes(3, max_mult=1, max_edges=mx, recorded_only=recorded_only, self_edges=(tier != 'quick' and mx <= 4)):
        add(3, e, F.describe(3, e), std_layouts(3, tier, seed)[:3 if tier == 'quick' else 6])
    for n in ((3,) if tier == 'quick' else (3, 4)):
        for nm, e in F.named_shapes(n).items():
            add(n, e, nm, std_layouts(n, tier, seed)[:3])
            if noop:
                add(n, e + [(0, 0, True, 'noop')], nm + '+noop-self', std_layouts(n, tier, seed)[:3])
    if not weak_obs:
        # probing variant: between the drops, every object is upgraded through a Weak and the temporary handle dropped
        # again (a non-last drop: runs the trace at moments the plain drop orders never reach)
        weak_obs = True
        for nm, e in F.named_shapes(3).items():
            add(3, e, nm + ' +probes', std_layouts(3, tier, seed)[:2])
        for nm, e in F.named_shapes(2).items():
            add(2, e, nm + ' +probes', std_layouts(2, tier, seed)[:2])
    return items


# ------------------------------------------------------------------ translator validation scripts
def validation_scripts(seed, n_random):
    out = []
    # transcriptions of the repository's integration tests (tests/*.rs)
    A = lambda a, b: {'op': 'adopt', 'a': a, 'b': b}
    N = lambda i, h: {'op': 'new', 'obj': i, 'as': h}
    C = lambda h, a: {'op': 'clone', 'h': h, 'as': a}
    D = lambda h: {'op': 'drop', 'h': h}
    S = lambda via, h: {'op': 'store', 'via': via, 'h': h}
    # leak_mutually_adopted / weak_upgrade_returns_none_when_cycle_is_deallocated
    out.append(('test-mutually-adopted', {'ops': [N(0, 'a'), N(1, 'b'), C('b', 't0'), A('a', 't0'), S('a', 't0'), C('a', 't1'), A('b', 't1'), S('b', 't1'),
                                                  {'op': 'downgrade', 'h': 'a', 'as': 'w'}, D('a'), {'op': 'upgrade', 'w': 'w'}, D('b'), {'op': 'upgrade', 'w': 'w'},
                                                  {'op': 'w_weak_count', 'w': 'w'}, {'op': 'wdrop', 'w': 'w'}]}))
    # leak_adopt_self (clone) / adopt_self_noop (same handle)
    out.append(('test-adopt-self-clone', {'ops': [N(0, 'a'), C('a', 't'), A('a', 't'), S('a', 't'), {'op': 'downgrade', 'h': 'a', 'as': 'w'},
                                                  {'op': 'strong_count', 'h': 'a'}, D('a'), {'op': 'upgrade', 'w': 'w'}, {'op': 'wdrop', 'w': 'w'}]}))
    out.append(('test-adopt-self-noop', {'ops': [N(0, 'a'), A('a', 'a'), {'op': 'strong_count', 'h': 'a'}, {'op': 'downgrade', 'h': 'a', 'as': 'w'}, D('a'),
                                                 {'op': 'upgrade', 'w': 'w'}, {'op': 'wdrop', 'w': 'w'}]}))
    # leak_chain: ring of 5
    ops = [N(i, H(i)) for i in range(5)]
    for i in range(5):
        ops += [C(H((i + 1) % 5), 't%d' % i), A(H(i), 't%d' % i), S(H(i), 't%d' % i)]
    ops += [{'op': 'downgrade', 'h': H(0), 'as': 'w'}]
    for i in range(5):
        ops += [D(H(i)), {'op': 'upgrade', 'w': 'w'}]
    ops += [{'op': 'wdrop', 'w': 'w'}]
    out.append(('test-chain-ring5', {'ops': ops}))
    # leak_fully_connected_graph (4, including self edges through clones)
    ops = [N(i, H(i)) for i in range(4)]
    t = 0
    for i in range(4):
        for j in range(4):
            ops += [C(H(j), 't%d' % t), A(H(i), 't%d' % t), S(H(i), 't%d' % t)]
            t += 1
    for i in range(4):
        ops += [{'op': 'strong_count', 'h': H(i)}, D(H(i))]
    out.append(('test-fully-connected4', {'ops': ops}))
    # leak_doubly_linked_list (3 nodes)
    ops = [N(i, H(i)) for i in range(3)]
    t = 0
    for i in range(3):
        for j in ((i + 1) % 3, (i - 1) % 3):
            ops += [C(H(j), 't%d' % t), A(H(i), 't%d' % t), S(H(i), 't%d' % t)]
            t += 1
    for i in range(3):
        ops += [D(H(i))]
    out.append(('test-doubly-linked3', {'ops': ops}))
    # leak_unadopt
    out.append(('test-unadopt', {'ops': [N(0, 'a'), N(1, 'b'), C('b', 't0'), A('a', 't0'), S('a', 't0'), C('a', 't1'), A('b', 't1'), S('b', 't1'),
                                         {'op': 'take', 'via': 'a', 'slot': 0, 'as': 'x'}, {'op': 'unadopt', 'a': 'a', 'b': 'x'}, D('x'),
                                         {'op': 'strong_count', 'h': 'b'}, D('a'), {'op': 'strong_count', 'h': 'b'}, D('b')]}))
    # leak_adopt_with_dropped_rc / self-referential collection weak
    out.append(('test-weak-self-collection', {'ops': [N(0, 'a'), {'op': 'downgrade', 'h': 'a', 'as': 'w0'}, {'op': 'store_weak', 'via': 'a', 'w': 'w0'},
                                                      {'op': 'weak_count', 'h': 'a'}, {'op': 'downgrade', 'h': 'a', 'as': 'w'}, D('a'), {'op': 'upgrade', 'w': 'w'},
                                                      {'op': 'w_weak_count', 'w': 'w'}, {'op': 'wdrop', 'w': 'w'}]}))
    # rc unit tests: try_unwrap / get_mut / make_mut / raw round trips
    out.append(('test-try-unwrap', {'ops': [N(0, 'a'), C('a', 'b'), {'op': 'try_unwrap', 'h': 'a', 'as': 'a2'}, D('b'), {'op': 'downgrade', 'h': 'a2', 'as': 'w'},
                                            {'op': 'try_unwrap', 'h': 'a2', 'as': 'v'}, {'op': 'upgrade', 'w': 'w'}, {'op': 'drop_value', 'v': 'v'}, {'op': 'wdrop', 'w': 'w'}]}))
    # test_show / hashing: what Rc<T>'s Hash, Display, Debug, Pointer and Weak<T>'s Debug feed to the hasher / formatter
    out.append(('test-hash-fmt', {'ops': [N(0, 'a'), N(1, 'b'), C('b', 't'), {'op': 'store', 'via': 'a', 'h': 't'}, {'op': 'downgrade', 'h': 'a', 'as': 'w'},
                                          {'op': 'hash', 'h': 'a'}, {'op': 'fmt_display', 'h': 'a'}, {'op': 'fmt_debug', 'h': 'b'}, {'op': 'fmt_pointer', 'h': 'b'},
                                          {'op': 'wfmt_debug', 'w': 'w'}, {'op': 'make_mut', 'h': 'a'}, {'op': 'hash', 'h': 'a'}, {'op': 'fmt_display', 'h': 'a'}, {'op': 'fmt_pointer', 'h': 'a'},
                                          D('a'), {'op': 'wfmt_debug', 'w': 'w'}, {'op': 'wdrop', 'w': 'w'}, D('b')]}))
    out.append(('test-get-mut', {'ops': [N(0, 'a'), {'op': 'get_mut', 'h': 'a'}, C('a', 'b'), {'op': 'get_mut', 'h': 'a'}, D('b'), {'op': 'downgrade', 'h': 'a', 'as': 'w'},
                                         {'op': 'get_mut', 'h': 'a'}, {'op': 'wdrop', 'w': 'w'}, {'op': 'get_mut', 'h': 'a'}, D('a')]}))
    out.append(('test-make-mut', {'ops': [N(0, 'a'), {'op': 'make_mut', 'h': 'a'}, C('a', 'b'), {'op': 'make_mut', 'h': 'a'}, {'op': 'strong_count', 'h': 'a'},
                                          {'op': 'strong_count', 'h': 'b'}, {'op': 'downgrade', 'h': 'b', 'as': 'w'}, {'op': 'make_mut', 'h': 'b'},
                                          {'op': 'upgrade', 'w': 'w'}, {'op': 'w_strong_count', 'w': 'w'}, D('a'), D('b'), {'op': 'wdrop', 'w': 'w'}]}))
    out.append(('test-raw', {'ops': [N(0, 'a'), {'op': 'into_raw', 'h': 'a', 'as': 'r'}, {'op': 'inc_strong', 'r': 'r'}, {'op': 'from_raw', 'r': 'r', 'as': 'a'},
                                     {'op': 'strong_count', 'h': 'a'}, {'op': 'as_ptr', 'h': 'a', 'as': 'p'}, {'op': 'dec_strong', 'r': 'p'},
                                     {'op': 'strong_count', 'h': 'a'}, {'op': 'downgrade', 'h': 'a', 'as': 'w'}, {'op': 'w_into_raw', 'w': 'w', 'as': 'wr'},
                                     {'op': 'w_from_raw', 'r': 'wr', 'as': 'w'}, {'op': 'weak_count', 'h': 'a'}, D('a'), {'op': 'upgrade', 'w': 'w'}, {'op': 'wdrop', 'w': 'w'},
                                     {'op': 'weak_new', 'as': 'wn'}, {'op': 'upgrade', 'w': 'wn'}, {'op': 'w_strong_count', 'w': 'wn'}, {'op': 'w_weak_count', 'w': 'wn'},
                                     {'op': 'wclone', 'w': 'wn', 'as': 'wn2'}, {'op': 'wdrop', 'w': 'wn'}, {'op': 'wdrop', 'w': 'wn2'}]}))
    out.append(('test-from-and-compare', {'ops': [{'op': 'new_from', 'obj': 0, 'as': 'a'}, {'op': 'new_from_box', 'obj': 1, 'as': 'b'}, C('a', 'a2'),
                                                  {'op': 'eq', 'a': 'a', 'b': 'a2'}, {'op': 'eq', 'a': 'a', 'b': 'b'}, {'op': 'ne', 'a': 'a', 'b': 'b'}, {'op': 'lt', 'a': 'a', 'b': 'b'},
                                                  {'op': 'ge', 'a': 'a', 'b': 'b'}, {'op': 'cmp', 'a': 'b', 'b': 'a'}, {'op': 'partial_cmp', 'a': 'a', 'b': 'a2'},
                                                  {'op': 'strong_count', 'h': 'a'}, {'op': 'weak_count', 'h': 'b'}, D('a'), D('a2'), D('b')]}))
    rnd = random.Random(4242 + seed)
    for k in range(n_random):
        out.append(('random-%d' % k, random_script(rnd)))
    return out


def random_script(rnd, nobj=3, length=18):
    """random precondition-respecting history (every adopt is backed by a stored handle; take is followed by unadopt)"""
    ops = []
    prog = {}       # handle name -> obj
    slots = {}      # obj -> list of target objs
    weaks = {}
    alive = set()
    cnt = [0]

    def fresh(p):
        cnt[0] += 1
        return '%s%d' % (p, cnt[0])
    for i in range(nobj):
        ops.append({'op': 'new', 'obj': i, 'as': H(i)})
        prog[H(i)] = i
        slots[i] = []
    for _ in range(length):
        hs = sorted(prog)
        if not hs:
            break
        c = rnd.choice(['clone', 'drop', 'link', 'link', 'unlink', 'weak', 'upgrade', 'wdrop', 'count', 'wcount', 'show', 'rawrt'])
        if c == 'clone':
            h = rnd.choice(hs)
            n = fresh('c')
            ops.append({'op': 'clone', 'h': h, 'as': n})
            prog[n] = prog[h]
        elif c == 'drop' and len(hs) > 1:
            # keep it simple: never drop the last program handle of an object that others may need for `via`
            h = rnd.choice(hs)
            ops.append({'op': 'drop', 'h': h})
            del prog[h]
            # after a drop, objects may have been collected: stop generating ops that need liveness knowledge
            break
        elif c == 'link':
            a = rnd.choice(hs)
            b = rnd.choice(hs)
            t = fresh('t')
            ops.append({'op': 'clone', 'h': b, 'as': t})
            if rnd.random() < 0.8:
                ops.append({'op': 'adopt', 'a': a, 'b': t})
            ops.append({'op': 'store', 'via': a, 'h': t})
            slots[prog[a]].append(prog[b])
        elif c == 'weak':
            h = rnd.choice(hs)
            w = fresh('w')
            ops.append({'op': 'downgrade', 'h': h, 'as': w})
            weaks[w] = prog[h]
        elif c == 'upgrade' and weaks:
            ops.append({'op': 'upgrade', 'w': rnd.choice(sorted(weaks))})
        elif c == 'wdrop' and weaks:
            w = rnd.choice(sorted(weaks))
            ops.append({'op': 'wdrop', 'w': w})
            del weaks[w]
        elif c == 'show':
            h = rnd.choice(hs)
            ops.append({'op': rnd.choice(['hash', 'fmt_display', 'fmt_debug', 'fmt_pointer']), 'h': h})
            if weaks:
                ops.append({'op': 'wfmt_debug', 'w': rnd.choice(sorted(weaks))})
        elif c == 'rawrt':
            h = rnd.choice(hs)
            r = fresh('r')
            ops += [{'op': 'into_raw', 'h': h, 'as': r}, {'op': 'from_raw', 'r': r, 'as': h}]
        elif c == 'count':
            ops.append({'op': 'strong_count', 'h': rnd.choice(hs)})
            ops.append({'op': 'weak_count', 'h': rnd.choice(hs)})
        elif c == 'wcount' and weaks:
            w = rnd.choice(sorted(weaks))
            ops.append({'op': 'w_strong_count', 'w': w})
            ops.append({'op': 'w_weak_count', 'w': w})
    # final phase: drop every program handle (ordinarily, or through into_raw + decrement_strong_count), observing weak handles in between
    for h in sorted(prog):
        ops.append({'op': 'drop' if rnd.random() < 0.8 else 'drop_via_raw', 'h': h})
        for w in sorted(weaks):
            ops.append({'op': 'upgrade', 'w': w})
    for w in sorted(weaks):
        ops.append({'op': 'w_strong_count', 'w': w})
        ops.append({'op': 'wdrop', 'w': w})
    return {'ops': ops}


# ------------------------------------------------------------------ classifier of causes
def classify(v):
    """name the mechanism of a counterexample from the interpreted trace (role, not shape)"""
    st = [s.split('::')[-1] if '<impl' not in s else s.split('>::')[-1] for s in v.get('stack', [])]
    clause = v['clause']
    # a clause relabelled into another check (e.g. 'C03:orphan-not-collected' reported by C10) names the same mechanism
    mrel = re.match(r'^C\d\d:(.*)$', clause)
    if mrel and not mrel.group(1).startswith('memory'):
        clause = mrel.group(1)
    tags = v.get('tags', [])
    script = v['script']
    has_same = any(op['op'] == 'adopt' and op['a'] == op['b'] for op in script['ops'])
    if 'stale' in tags:
        return 'stale-record-trusted:' + clause.split(':')[0]
    if clause.startswith('memory:') or clause == 'library-panic':
        if 'drop_unreachable_with_adoptions' in st and 'drop_cycle' in st:
            return 'group-member-survives-phase1-then-purges-gutted-peers'
        if 'drop_cycle' in st:
            return 'group-teardown:' + clause
        if 'cycle_refs' in st:
            return 'trace-reads-released-object'
        return clause + '@' + (st[-1] if st else '?')
    subj = v.get('subject') or []
    rs = v.get('rec_same') or {}
    same_subject = any(rs.get(i, rs.get(str(i), 0)) > 0 for i in subj)
    # the mechanism of the known same-handle finding acts when a handle is dropped (orphan test / group gutting); a wrong
    # record right after adopt/unadopt or another call is a different mechanism even if a Loopback record is present
    opi = v.get('op_index', -1)
    ops_ = script.get('ops', [])
    last_op = ops_[opi]['op'] if 0 <= opi < len(ops_) else ''
    drop_like = last_op in ('drop', 'drop_via_raw', 'drop_extra', 'upgrade', 'dec_strong', 'drop_if', 'drop_any', 'catch', 'drop_value', 'wdrop', '')
    if clause in ('orphan-not-collected', 'table-exact', 'zero-count-not-destroyed', 'not-destroyed', 'leak') and same_subject and drop_like:
        # the object (group) concerned has recorded an adoption of itself through the very same handle:
        # the Loopback record is never counted as an owned reference
        return 'same-handle-self-adoption-not-counted'
    return clause


# ------------------------------------------------------------------ properties
PROPS = {}


def items_C06(tier, seed, P):
    its = graph_items('C06', tier, seed, {'C06'}, wextras=True, with_extra_drops=True, noop=True) + mult_items('C06', tier, seed, {'C06'}, wextras=True) + history_items('C06', tier, seed, {'C06'})
    # Weak handles stored inside values (counts seen through Rc::weak_count / Weak::*_count after every step)
    its += weak_graph_items('C06', tier, seed, {'C06'}, opts={'panics_ok': True}, dtor_upgrades=False, one_weak=True)
    R = lambda i, j: (i, j, True, False)
    # identity: all handles to an object agree on ptr_eq for its whole life (kept clones compared after every step)
    for (n, e, nm) in [(2, [R(0, 1), R(1, 0)], 'ring2'), (2, [R(0, 1)], 'owner-target'), (3, F.named_shapes(3)['ring2+leaf'], 'ring2+leaf')]:
        base = F.build_ops(n, e, extras=True)
        for i in range(n):
            base.append({'op': 'clone', 'h': H(i), 'as': 'k%d' % i})
        for seq in F.drop_sequences(n, n)[:2]:
            ops = list(base)
            gone = set()
            for (kk, i) in seq:
                ops += F.drop_ops([(kk, i)])
                gone.add(i)
                for a in range(n):
                    for b in range(n):
                        if a <= b:
                            ops.append({'op': 'ptr_eq', 'a': 'k%d' % a, 'b': ('k%d' % b) if (a != b or a in gone) else H(a)})
                    ops += [{'op': 'strong_count', 'h': 'k%d' % a}]
            its.append(dict(prop='C06', name='%s identity drops=%s' % (nm, ''.join('%s%d' % q for q in seq)), script={'ops': ops}, sym=True, oracles={'C06'},
                            opts={'panics_ok': True}, layouts=[None]))
    its += weak_api_items('C06', tier, seed, {'C06'}) + api_items('C06', tier, seed, {'C06'}, opts={'panics_ok': True})
    # raw strong-count manipulation on members of a group
    for (n, e, nm) in [(2, [R(0, 1), R(1, 0)], 'ring2'), (2, [R(0, 1)], 'owner-target')]:
        for tgt in range(n):
            ops = F.build_ops(n, e, extras=True, wextras=True)
            ops += [{'op': 'as_ptr', 'h': H(tgt), 'as': 'rp'}, {'op': 'inc_strong', 'r': 'rp'}, {'op': 'strong_count', 'h': H(tgt)}, {'op': 'inc_strong', 'r': 'rp'},
                    {'op': 'strong_count', 'h': H(tgt)}, {'op': 'dec_strong', 'r': 'rp'}, {'op': 'strong_count', 'h': H(tgt)},
                    {'op': 'into_raw', 'h': H(tgt), 'as': 'rr'}, {'op': 'from_raw', 'r': 'rr', 'as': H(tgt)}, {'op': 'strong_count', 'h': H(tgt)}, {'op': 'weak_count', 'h': H(tgt)},
                    {'op': 'dec_strong', 'r': 'rp'}, {'op': 'strong_count', 'h': H(tgt)}]
            for i in range(n):
                ops += [{'op': 'strong_count', 'h': H(i)}]
            its.append(dict(prop='C06', name='%s raw counts on %d' % (nm, tgt), script={'ops': ops}, sym=True, oracles={'C06'}, opts={'panics_ok': True}, layouts=[None]))
    # counts of the peers after value-cloning / value-moving APIs (make_mut clones the handles a value holds; try_unwrap moves them)
    R = lambda i, j: (i, j, True, False)
    for (n, e, nm) in [(2, [R(0, 1)], 'owner-target'), (2, [R(0, 1), R(1, 0)], 'ring2'), (3, F.named_shapes(3)['ring2+leaf'], 'ring2+leaf'), (2, [(0, 1, False, False)], 'chain-unrecorded')]:
        for api in ('make_mut', 'try_unwrap'):
            for tgt in range(n):
                ops = F.build_ops(n, e, extras=True, wextras=True)
                ops += [{'op': api, 'h': H(tgt), 'as': 'res'} if api == 'try_unwrap' else {'op': api, 'h': H(tgt)}]
                for i in range(n):
                    if not (api == 'try_unwrap' and i == tgt):
                        ops += [{'op': 'strong_count', 'h': H(i)}, {'op': 'weak_count', 'h': H(i)}]
                its.append(dict(prop='C06', name='%s %s on %d then counts' % (nm, api, tgt), script={'ops': ops}, sym=True, oracles={'C06'}, opts={'panics_ok': True},
                                layouts=[None]))
    for it in its:
        # observe the public counters too
        ops = []
        for op in it['script']['ops']:
            ops.append(op)
        it['script'] = {'ops': ops}
    return its


PROPS['C06'] = dict(
    items=items_C06,
    bounds={'quick': {'objects': '<=2 complete (multiplicity 1, self edges incl. same-handle), N=3 <=3 edges, named N=3 shapes', 'drops': 'all orders of dropping the named handles', 'counters': 'extra strong/Weak handles per object: symbolic 64-bit', 'layouts': '4 per shape'},
            'thorough': {'objects': 'N<=2 multiplicity<=2, N=3 <=4 edges, named N=3/4', 'counters': 'symbolic 64-bit', 'layouts': 'up to 12'}},
    outside=['N>4', 'held>2 per pair', 'allocation failure'],
    vacuity=lambda results, extra: None if sum(r['oracle_queries'] for r in results) > 0 else 'no count oracle query was issued',
    replay_oracles=['C06'],
)


def vac_paths(*needed):
    """vacuity witness: the families must have reached the situations the oracle is about (counted from the traces
    of all explored paths): e.g. 'dtor' = some destructor ran, 'multi_destroy_ops' = some operation destroyed a whole group"""
    def f(results, extra):
        tot = sum(r['paths'] for r in results)
        if tot == 0:
            return 'no path explored'
        if sum(1 for r in results if r.get('sample')) == 0:
            return 'no path completed'
        reached = extra.get('reached', {})
        for k in needed:
            if reached.get(k, 0) == 0:
                return 'no explored path reached "%s"' % k
        return None
    return f


BOUNDS_GRAPH = {
    'quick': {'objects': 'N<=2 complete (held<=1 per ordered pair; self edges: unrecorded / recorded through a clone / recorded through the same handle with a stored handle / upstream\'s no-effect same-handle adoption without a stored handle where the property allows it); N=3 shapes with <=3 edges; named N=3 shapes (ring, ring+chord, clique, ring+tail, ring+self, outside owner of a ring, ring whose member adopted a leaf, rings whose members all self-adopt + leaf); 8 shapes with doubled (parallel) edges',
              'history': 'build phase, then every order of dropping the named program handles; adopt/unadopt histories: owner records m<=2 adoptions of a target (alone, in a ring, ring with the owner, itself), then u<=m+1 unadopts with or without giving the handle up, a non-last handle of every object dropped, then every drop order; oracles after every operation and inside every destructor',
              'counters': 'extra program-held strong handles per object e_j (and Weak w_j where used): symbolic 64-bit, decided by z3',
              'layouts': 'insertion order, reverse rank order, 2 seeded rank orders', 'loop_unroll': 64},
    'thorough': {'objects': 'N<=2 with held<=2, N=3 with <=4 edges incl. self edges, named N=3 and N=4 shapes (two rings sharing a member)',
                 'history': 'as quick with m<=3', 'counters': 'symbolic 64-bit', 'layouts': 'up to 12 rank orders', 'loop_unroll': 64}}
OUTSIDE = ['N>4 objects', 'more than 2 parallel handles per ordered pair', 'allocation failure', 'unsized T / Pin', 'independent per-table iteration orders (except where ForkLayout is used)', 'behaviour of hashbrown/core/alloc themselves']


def items_C01(tier, seed, P):
    o = {'panics_ok': True}
    return (graph_items('C01', tier, seed, {'C01'}, opts=o, n3_edges_q=4, n3_edges_t=6, noop=True) + mult_items('C01', tier, seed, {'C01'}, opts=o) + history_items('C01', tier, seed, {'C01'}, opts=o)
            + api_items('C01', tier, seed, {'C01'}, opts=o))


PROPS['C01'] = dict(items=items_C01, bounds=BOUNDS_GRAPH, outside=OUTSIDE, vacuity=vac_paths('dtor', 'multi_destroy_ops'), replay_oracles=['C01'])


def items_C02(tier, seed, P):
    o = {'panics_ok': True}
    return (graph_items('C02', tier, seed, {'C02'}, opts=o, wextras=True, noop=True) + mult_items('C02', tier, seed, {'C02'}, opts=o, wextras=True)
            + history_items('C02', tier, seed, {'C02'}, opts=o) + weak_graph_items('C02', tier, seed, {'C02'}, opts=o, dtor_upgrades=False)
            + weak_graph_items('C02', tier, seed, {'C02'}, opts=o, dtor_upgrades=False, one_weak=True) + api_items('C02', tier, seed, {'C02'}, opts=o)
            + _c02_unwrap_after_elided_unadopt(tier, seed, P))


def _c02_unwrap_after_elided_unadopt(tier, seed, P):
    """C12's histories in which a peer gave its handles away without unadopt before the object left through try_unwrap / make_mut
    (documented as safe): here under the memory monitors alone"""
    out = []
    for it in items_C12(tier, seed, P):
        if 'stale' in it.get('tags', []):
            c = dict(it)
            c.update(prop='C02', oracles={'C02'}, accept_props=['C02'], relabel=False, ub_prop='C02', name='unwrap-after-elided-unadopt: ' + it['name'],
                     opts={'panics_ok': True, 'stale': True})
            out.append(c)
    return out


PROPS['C02'] = dict(items=items_C02, bounds=BOUNDS_GRAPH, outside=OUTSIDE, vacuity=vac_paths('dtor', 'multi_destroy_ops'), replay_oracles=['C02'])


def items_C03(tier, seed, P):
    its = graph_items('C03', tier, seed, {'C03'}, recorded_only=False, n3_edges_q=4, n3_edges_t=6, noop=True) + mult_items('C03', tier, seed, {'C03'}) + history_items('C03', tier, seed, {'C03'})
    # make_mut through an outside handle of a group member (value cloned into a fresh allocation, the old handle released
    # inside make_mut): the recorded graph of the old object must still lead to its collection
    R = lambda i, j: (i, j, True, False)
    for (n, e, nm) in [(2, [R(0, 1), R(1, 0)], 'ring2'), (3, F.named_shapes(3)['ring3'], 'ring3'), (3, F.named_shapes(3)['ring2+leaf'], 'ring2+leaf'), (1, [(0, 0, True, False)], 'selfclone1')]:
        for mode in ('unlinked', 'linked'):
            for seq in F.drop_sequences(n, n)[:3]:
                ops = F.build_ops(n, e, extras=True) + [{'op': 'clone_mode', 'mode': mode}]
                done = False
                for (kk, i) in seq:
                    if not done and i == 0:
                        ops.append({'op': 'make_mut', 'h': H(0)})
                        done = True
                    ops += F.drop_ops([(kk, i)])
                its.append(dict(prop='C03', name='%s make_mut(%s clone) on 0 drops=%s' % (nm, mode, ''.join('%s%d' % q for q in seq)), script={'ops': ops}, sym=True,
                                oracles={'C03'}, opts={'panics_ok': True}, layouts=std_layouts(n, tier, seed)[:2]))
    # a member destructor panics (caught): the orphaned group is still destroyed in full by that drop
    for it in panic_weak_items('C03', tier, seed):
        it['oracles'] = {'C03'}
        it['opts'] = {'panics_ok': True}
        its.append(it)
    its += api_items('C03', tier, seed, {'C03'}, opts={'panics_ok': True})
    # N=5 work-list shapes (see worklist_shapes5): an orphaned group of five is destroyed whatever the table order
    for (e, nm) in worklist_shapes5(tier, seed)[:2 if tier == 'quick' else None]:
        rl = random.Random('c03-n5|%s|%d' % (nm, seed))
        lays = [None] + [('rank', tuple(rl.sample(range(5), 5)), tuple(rl.sample(range(3), 3)), rl.choice(['obj', 'kind']), rl.random() < 0.5) for _ in range(8 if tier == 'quick' else 40)]
        for last in ((0, 3) if tier == 'quick' else range(5)):
            seq = [('h', i) for i in range(5) if i != last] + [('h', last)]
            its.append(dict(prop='C03', name='%s last=%d' % (nm, last), script={'ops': F.build_ops(5, e, extras=True) + F.drop_ops(seq)}, sym=True,
                            oracles={'C03'}, opts={'panics_ok': True}, layouts=lays))
    return its


PROPS['C03'] = dict(items=items_C03, bounds=BOUNDS_GRAPH, outside=OUTSIDE, vacuity=vac_paths('dtor', 'multi_destroy_ops'), replay_oracles=['C03'])


def items_C08(tier, seed, P):
    o = {'panics_ok': True}
    return (graph_items('C08', tier, seed, {'C08'}, opts=o, noop=True, n3_edges_q=4, n3_edges_t=6) + mult_items('C08', tier, seed, {'C08'}, opts=o) + history_items('C08', tier, seed, {'C08'}, opts=o)
            + lemma_items('C08', ['linksremove']) + api_items('C08', tier, seed, {'C08'}, opts=o))


PROPS['C08'] = dict(items=items_C08, bounds=BOUNDS_GRAPH, outside=OUTSIDE, vacuity=vac_paths('dtor', 'multi_destroy_ops'), replay_oracles=['C08'])


# ------------------------------------------------------------------ unit lemmas (counter generalisation, sentinels)
def _viol(res, sc, prop, clause, detail, extra=None, item=None):
    res['violations'].append(dict(prop=prop, clause=clause, detail=detail, model=sc.model_values(extra) or {}, script=sc.script, layout=None,
                                  name=res['name'], decisions=list(sc.E.decisions), op_index=sc.op_index, stack=[], trace=sc.trace, tags=['lemma'],
                                  subject=None, rec_same={}, opts=None))
    res['outcomes']['violation'] = res['outcomes'].get('violation', 0) + 1


def lemma_items(prop, which):
    import z3
    from values import MASK, bv
    items = []

    def mk(name, ops, post, opts=None):
        o = dict(abort_ok=True, panics_ok=True)
        o.update(opts or {})
        items.append(dict(prop=prop, name='lemma:' + name, script={'ops': ops}, sym=True, oracles=set(), opts=o, layouts=[None],
                          post_path=post, tags=['lemma']))

    if 'clone' in which:
        def post(sc, out, res):
            s = sc.symvars['s']
            bad = z3.Or(s == 0, s == MASK, s == MASK - 1)
            if out[0] == 'abort':
                if sc.E.check(z3.Not(bad)):
                    _viol(res, sc, prop, 'lemma-clone-abort', 'Rc::clone aborts for a counter value outside {0, MAX-1, MAX}', z3.Not(bad))
            elif out[0] == 'ok':
                if sc.E.check(bad):
                    _viol(res, sc, 'C16' if prop == 'C16' else prop, 'lemma-clone-sentinel', 'Rc::clone returns a handle although the strong counter is 0 / MAX-1 / MAX (dead or saturated)', bad)
                ns = sc.strong(0)
                if sc.E.check(bv(ns) != s + 1):
                    _viol(res, sc, prop, 'lemma-clone-adds-one', 'Rc::clone does not add exactly one to the strong counter', bv(ns) != s + 1)
                if sc.handles['c']['obj'] != 0:
                    _viol(res, sc, prop, 'lemma-clone-identity', 'clone points to another allocation')
            res['extra'].setdefault('lemma_paths', {}).setdefault('clone', []).append(out[0])
        mk('clone', [{'op': 'new', 'obj': 0, 'as': 'h'}, {'op': 'set_strong', 'h': 'h', 'v': 's'}, {'op': 'clone', 'h': 'h', 'as': 'c'}], post)
    if 'upgrade' in which:
        def post(sc, out, res):
            s = sc.symvars['s']
            dead = z3.Or(s == 0, s == MASK)
            tr = [t for t in sc.trace if t[0] == 'ret' and t[1] == 'upgrade']
            if out[0] == 'abort':
                if sc.E.check(s != MASK - 1):
                    _viol(res, sc, prop, 'lemma-upgrade-abort', 'Weak::upgrade aborts for a strong counter other than MAX-1', s != MASK - 1)
            elif out[0] == 'ok' and tr:
                if tr[0][2] == 'none':
                    if sc.E.check(z3.Not(dead)):
                        _viol(res, sc, prop, 'lemma-upgrade-none-live', 'Weak::upgrade returns None although the strong counter is neither 0 nor the destroyed mark', z3.Not(dead))
                else:
                    if sc.E.check(z3.Or(dead, s == MASK - 1)):
                        _viol(res, sc, prop, 'lemma-upgrade-sentinel', 'Weak::upgrade returns a handle at a sentinel counter value (0, MAX-1 or MAX)', z3.Or(dead, s == MASK - 1))
                    if sc.E.check(bv(sc.strong(0)) != s + 1):
                        _viol(res, sc, prop, 'lemma-upgrade-adds-one', 'Weak::upgrade does not add exactly one to the strong counter', bv(sc.strong(0)) != s + 1)
        mk('upgrade', [{'op': 'new', 'obj': 0, 'as': 'h'}, {'op': 'downgrade', 'h': 'h', 'as': 'x'}, {'op': 'set_strong', 'h': 'h', 'v': 's'},
                       {'op': 'upgrade', 'w': 'x', 'as': 'u'}], post)
    if 'downgrade' in which:
        def post(sc, out, res):
            w = sc.symvars['w']
            bad = z3.Or(w == 0, w == MASK)
            if out[0] == 'abort':
                if sc.E.check(z3.Not(bad)):
                    _viol(res, sc, prop, 'lemma-downgrade-abort', 'Rc::downgrade aborts for a weak counter outside {0, MAX}', z3.Not(bad))
            elif out[0] == 'ok':
                if sc.E.check(bad):
                    _viol(res, sc, prop, 'lemma-downgrade-sentinel', 'Rc::downgrade succeeds at a sentinel weak counter', bad)
                if sc.E.check(bv(sc.weakc(0)) != w + 1):
                    _viol(res, sc, prop, 'lemma-downgrade-adds-one', 'Rc::downgrade does not add exactly one to the weak counter', bv(sc.weakc(0)) != w + 1)
        mk('downgrade', [{'op': 'new', 'obj': 0, 'as': 'h'}, {'op': 'set_weak', 'h': 'h', 'v': 'w'}, {'op': 'downgrade', 'h': 'h', 'as': 'x'}], post)
    if 'weakdrop' in which:
        def post(sc, out, res):
            w = sc.symvars['w']
            pre = z3.UGE(w, 3)          # implicit weak + at least two Weak handles
            if out[0] == 'ok':
                if sc.E.check(z3.And(pre, bv(sc.weakc(0)) != w - 1)):
                    _viol(res, sc, prop, 'lemma-weak-drop', 'dropping a non-last Weak does not just decrement the weak counter')
                if sc.E.check(pre) and (not sc.rcbox(0).live or sc.objs[0].destroyed):
                    _viol(res, sc, prop, 'lemma-weak-drop-effect', 'dropping a non-last Weak released the block or destroyed the value')
            else:
                if sc.E.check(pre):
                    _viol(res, sc, prop, 'lemma-weak-drop-outcome', 'dropping a non-last Weak ended in %s' % out[0])
        mk('weakdrop', [{'op': 'new', 'obj': 0, 'as': 'h'}, {'op': 'downgrade', 'h': 'h', 'as': 'x'}, {'op': 'set_weak', 'h': 'h', 'v': 'w'}, {'op': 'wdrop', 'w': 'x'}], post)
    if 'linksremove' in which:
        def mkpost(present):
            def post(sc, out, res):
                n = sc.symvars['n']
                t = sc.table(0) if out[0] == 'ok' else None
                cur = t.get(('Forward', 1)) if isinstance(t, dict) else None
                # representation invariant of a table: no zero-count record
                pre = z3.UGE(sc.symvars['c'], 1) if present else z3.BoolVal(True)
                if out[0] != 'ok':
                    if sc.E.check(pre):
                        _viol(res, sc, prop, 'lemma-links-remove-outcome', 'Links::remove ended in %s' % out[0], pre)
                    return
                if not present:
                    if cur is not None:
                        _viol(res, sc, prop, 'lemma-links-remove-absent', 'Links::remove of a link that is not recorded created an entry')
                    return
                c = sc.symvars['c']
                if cur is None:
                    # entry deleted: only allowed when c <= n
                    if sc.E.check(z3.And(pre, z3.UGT(c, n))):
                        _viol(res, sc, prop, 'lemma-links-remove-deletes', 'Links::remove deletes a record although more adoptions were recorded than removed', z3.And(pre, z3.UGT(c, n)))
                else:
                    if sc.E.check(z3.And(pre, z3.ULE(c, n))):
                        _viol(res, sc, prop, 'lemma-links-remove-keeps', 'Links::remove keeps a record although at least as many adoptions were removed as recorded', z3.And(pre, z3.ULE(c, n)))
                    if sc.E.check(z3.And(pre, bv(cur) != c - n)):
                        _viol(res, sc, prop, 'lemma-links-remove-count', 'Links::remove leaves a count other than recorded minus removed', z3.And(pre, bv(cur) != c - n))
                    if sc.E.check(z3.And(pre, bv(cur) == 0)):
                        _viol(res, sc, prop, 'lemma-links-remove-zero', 'Links::remove leaves a zero-count record', z3.And(pre, bv(cur) == 0))
            return post
        base = [{'op': 'new', 'obj': 0, 'as': 'h'}, {'op': 'new', 'obj': 1, 'as': 'g'}]
        mk('links-remove-present', base + [{'op': 'clone', 'h': 'g', 'as': 't'}, {'op': 'adopt', 'a': 'h', 'b': 't'}, {'op': 'store', 'via': 'h', 'h': 't'},
                                           {'op': 'set_link', 'h': 'h', 'kind': 'Forward', 'target': 'g', 'v': 'c'},
                                           {'op': 'unit_links_remove', 'h': 'h', 'kind': 'Forward', 'target': 'g', 'n': 'n'}], mkpost(True))
        mk('links-remove-absent', base + [{'op': 'unit_links_remove', 'h': 'h', 'kind': 'Forward', 'target': 'g', 'n': 'n'}], mkpost(False))
    if 'rcdrop' in which:
        def post(sc, out, res):
            s = sc.symvars['s']
            pre = z3.And(z3.UGE(s, 2), z3.ULE(s, MASK - 2))
            if out[0] == 'ok':
                if sc.E.check(z3.And(pre, bv(sc.strong(0)) != s - 1)) if sc.rcbox(0).live else sc.E.check(pre):
                    _viol(res, sc, prop, 'lemma-rc-drop', 'dropping a non-last handle of an object without adoptions does not just decrement the strong counter')
                if sc.E.check(pre) and sc.objs[0].destroyed:
                    _viol(res, sc, prop, 'lemma-rc-drop-effect', 'dropping a non-last handle destroyed the value')
            elif sc.E.check(pre):
                _viol(res, sc, prop, 'lemma-rc-drop-outcome', 'dropping a non-last handle ended in %s' % out[0])
        mk('rcdrop', [{'op': 'new', 'obj': 0, 'as': 'h'}, {'op': 'set_strong', 'h': 'h', 'v': 's'}, {'op': 'drop', 'h': 'h'}], post)
    return items


# ------------------------------------------------------------------ C05
def weak_graph_items(prop, tier, seed, oracles, opts=None, end_all=False, dtor_upgrades=True, one_weak=False):
    items = []

    def add(n, edges, name, layouts, weak_edges, observers=True):
        base = F.build_ops(n, edges, extras=not end_all, wextras=observers, weak_edges=weak_edges)
        keep = []
        if dtor_upgrades:
            # every destructor upgrades / inspects every Weak its value holds
            cnt = {}
            for (i, j) in weak_edges:
                cnt[i] = cnt.get(i, 0) + 1
            for i, c in cnt.items():
                do = []
                for k in range(c):
                    do += [{'op': 'upgrade', 'w': '^%d' % k, 'as': 'kp_%d_%d' % (i, k)}, {'op': 'w_strong_count', 'w': '^%d' % k}, {'op': 'w_weak_count', 'w': '^%d' % k}]
                    keep.append('kp_%d_%d' % (i, k))
                base.append({'op': 'on_drop', 'obj': i, 'do': do})
        for i in range(n):
            if observers:
                base.append({'op': 'downgrade', 'h': H(i), 'as': 'ow%d' % i})
        for seq in F.drop_sequences(n, n):
            ops = list(base)
            for (k, i) in seq:
                ops += F.drop_ops([(k, i)])
                for j in range(n):
                    if observers:
                        ops += [{'op': 'upgrade', 'w': 'ow%d' % j}, {'op': 'w_strong_count', 'w': 'ow%d' % j}, {'op': 'w_weak_count', 'w': 'ow%d' % j}]
                # handles that destructors obtained through upgrade are released only now
                for nm in keep:
                    ops.append({'op': 'drop_if', 'h': nm})
            if end_all and observers:
                for j in range(n):
                    ops += [{'op': 'wdrop', 'w': 'ow%d' % j}]
                for j in range(n):
                    ops += [{'op': 'drop_all_wextras', 'obj': j}]
            items.append(dict(prop=prop, name='%s weak=%s drops=%s' % (name, weak_edges, ''.join('%s%d' % s for s in seq)), script={'ops': ops},
                              sym=True, oracles=set(oracles), opts=dict(opts or {}), layouts=layouts))

    shapes = []
    for n in (1, 2):
        for e in F.shapes(n, max_mult=1, recorded_only=(tier == 'quick'), allow_noop=True):
            shapes.append((n, e, F.describe(n, e)))
    for nm, e in F.named_shapes(3).items():
        shapes.append((3, e, nm))
        shapes.append((3, e + [(0, 0, True, 'noop')], nm + '+noop-self'))
    if tier != 'quick':
        for e in F.shapes(3, max_mult=1, max_edges=3, self_edges=False):
            shapes.append((3, e, F.describe(3, e)))
        for nm, e in F.named_shapes(4).items():
            shapes.append((4, e, nm))
    for (n, e, nm) in shapes:
        lays = std_layouts(n, tier, seed)[:3 if tier == 'quick' else 6]
        allw = [(i, j) for i in range(n) for j in range(n)]
        if one_weak:
            # exactly one value holds one Weak (to a peer, or to itself), and no observer Weak exists outside
            for (i, j) in [(0, (1 % n)), (0, 0)] + ([(1, 0)] if n > 1 else []):
                add(n, e, nm, lays[:2], [(i, j)], observers=False)
            continue
        add(n, e, nm, lays, allw)          # every value holds a Weak to every object (itself included)
        if tier != 'quick':
            add(n, e, nm, lays, [])
    return items


def consume_weak_items(prop, tier, seed):
    """values that leave their allocation through try_unwrap / make_mut while Weak handles (symbolic number) remain"""
    items = []
    R = lambda i, j: (i, j, True, False)
    for (n, e, nm) in [(1, [], 'plain1'), (2, [R(0, 1)], 'owner-target'), (2, [(0, 1, False, False)], 'chain-unrecorded')]:
        for api in ('try_unwrap', 'make_mut'):
            for nweak in (0, 1, 2):
                ops = F.build_ops(n, e, extras=False, wextras=True)
                for k in range(nweak):
                    ops.append({'op': 'downgrade', 'h': H(0), 'as': 'ow%d' % k})
                if n > 1:
                    ops += [{'op': 'downgrade', 'h': H(0), 'as': 'sw'}, {'op': 'store_weak', 'via': H(1), 'w': 'sw'}]
                ops.append({'op': api, 'h': H(0), 'as': 'res'} if api == 'try_unwrap' else {'op': api, 'h': H(0)})
                obs = []
                for k in range(nweak):
                    obs += [{'op': 'upgrade', 'w': 'ow%d' % k}, {'op': 'w_strong_count', 'w': 'ow%d' % k}, {'op': 'w_weak_count', 'w': 'ow%d' % k}]
                ops += obs
                for k in range(nweak):
                    ops += [{'op': 'wdrop', 'w': 'ow%d' % k}] + [o for o in obs if o.get('w') != 'ow%d' % k and int(o['w'][2:]) > k]
                items.append(dict(prop=prop, name='%s %s with %d named Weak + symbolic extras' % (nm, api, nweak), script={'ops': ops}, sym=True,
                                  oracles={'C05'}, opts={'panics_ok': True}, layouts=[None]))
    return items


def panic_weak_items(prop, tier, seed):
    """a member destructor panics during a teardown (caught by the caller): afterwards every Weak must still agree with
    whether the value was destroyed (the other members' values are destroyed although one destructor panicked)"""
    items = []
    R = lambda i, j: (i, j, True, False)
    sh = [(2, [R(0, 1), R(1, 0)], 'ring2'), (2, [R(0, 1)], 'owner-target'), (3, F.named_shapes(3)['ring3'], 'ring3'), (3, F.named_shapes(3)['clique3'], 'clique3')]
    for (n, e, nm) in sh:
        for k in range(n):
            base = F.build_ops(n, e, extras=True) + [{'op': 'on_drop_panic', 'obj': k}]
            for i in range(n):
                base.append({'op': 'downgrade', 'h': H(i), 'as': 'ow%d' % i})
            for seq in F.drop_sequences(n, n)[:2]:
                ops = list(base)
                for (kk, i) in seq:
                    ops.append({'op': 'catch', 'do': F.drop_ops([(kk, i)])})
                    for j in range(n):
                        ops += [{'op': 'catch', 'do': [{'op': 'upgrade', 'w': 'ow%d' % j}]}, {'op': 'w_strong_count', 'w': 'ow%d' % j}, {'op': 'w_weak_count', 'w': 'ow%d' % j}]
                items.append(dict(prop=prop, name='%s panic@%d drops=%s' % (nm, k, ''.join('%s%d' % q for q in seq)), script={'ops': ops}, sym=True, oracles={'C05'},
                                  opts={'panics_ok': True}, layouts=std_layouts(n, tier, seed)[:4]))
    return items


def _c05_weak_after_death(tier, seed):
    out = []
    for it in weak_after_death_items(tier, seed):
        c = dict(it)
        c.update(prop='C05', name='C05 ' + it['name'], oracles={'C05'}, relabel=False, opts={'panics_ok': True})
        c['accept_props'] = ['C05']
        out.append(c)
    return out


def _c05_dtor_downgrades(tier, seed):
    """no Weak to any member exists anywhere; a member destructor downgrades each strong handle its value holds (the peer may already be
    destroyed by the same collection): the new Weak must be an ordinary dead / live Weak, and the allocation must stay until it is dropped"""
    items = []
    R = lambda i, j: (i, j, True, False)
    sh = [(2, [R(0, 1)], 'owner-target'), (2, [R(0, 1), R(1, 0)], 'ring2'), (1, [(0, 0, True, False)], 'selfclone1'), (3, F.named_shapes(3)['ring3'], 'ring3'),
          (3, F.named_shapes(3)['ring2+tail'], 'ring2+tail'), (2, [(0, 1, False, False)], 'chain-unrecorded')]
    for (n, e, nm) in sh:
        outdeg = {}
        for (i, j, r, s) in e:
            outdeg[i] = outdeg.get(i, 0) + 1
        for actor in range(n):
            if not outdeg.get(actor):
                continue
            do = []
            keep = []
            for k in range(outdeg[actor]):
                do += [{'op': 'downgrade', 'h': '@%d' % k, 'as': 'dw%d' % k}, {'op': 'w_strong_count', 'w': 'dw%d' % k}]
                keep.append('dw%d' % k)
            for seq in F.drop_sequences(n, n)[:2 if tier == 'quick' else None]:
                ops = F.build_ops(n, e, extras=True) + [{'op': 'on_drop', 'obj': actor, 'do': do}]
                for (kk, i) in seq:
                    ops += F.drop_ops([(kk, i)])
                # the Weak handles the destructor made are looked at and dropped by the program afterwards (if the destructor ran)
                for w in keep:
                    ops += [{'op': 'upgrade_if', 'w': w}, {'op': 'wdrop_if', 'w': w}]
                items.append(dict(prop='C05', name='%s dtor%d downgrades its handles drops=%s' % (nm, actor, ''.join('%s%d' % q for q in seq)), script={'ops': ops}, sym=True,
                                  oracles={'C05'}, opts={'panics_ok': True}, layouts=std_layouts(n, tier, seed)[:2]))
    return items


def items_C05(tier, seed, P):
    return (_c05_weak_after_death(tier, seed) + _c05_dtor_downgrades(tier, seed) + weak_graph_items('C05', tier, seed, {'C05'}, opts={'panics_ok': True}) + consume_weak_items('C05', tier, seed)
            + weak_graph_items('C05', tier, seed, {'C05'}, opts={'panics_ok': True}, one_weak=True)
            + panic_weak_items('C05', tier, seed) + weak_api_items('C05', tier, seed, {'C05'}) + lemma_items('C05', ['downgrade', 'weakdrop', 'upgrade']))


PROPS['C05'] = dict(items=items_C05, bounds=BOUNDS_GRAPH, outside=OUTSIDE, vacuity=vac_paths('dtor', 'multi_destroy_ops', 'upgrade:some', 'upgrade:none', 'try_unwrap:ok', 'make_mut:moved'), replay_oracles=['C05'])


def leave_by_api_items(tier, seed):
    """objects whose adoption table was used and is empty again (unadopt, or the neighbour died first) and whose value then
    leaves through try_unwrap / make_mut (value moved because a Weak remains) -- and the same with the table still in use;
    at the end everything is dropped and every allocation, tables included, must have been released"""
    items = []
    o = {'expect_all_freed': True, 'panics_ok': True}
    for a in ((1, 2) if tier == 'quick' else (1, 2, 3)):
        for hist in ('unadopted', 'adopter-died-first', 'adoptee-died-first', 'still-adopted'):
            for api in ('try_unwrap', 'make_mut'):
                for who in (0, 1):
                    if hist == 'adopter-died-first' and who == 0 or hist == 'adoptee-died-first' and who == 1:
                        continue
                    ops = [{'op': 'new', 'obj': 0, 'as': 'h0'}, {'op': 'new', 'obj': 1, 'as': 'h1'}, {'op': 'wextras', 'h': H(who), 'n': 'w%d' % who}]
                    for k in range(a):
                        ops += [{'op': 'clone', 'h': 'h1', 'as': 't%d' % k}, {'op': 'adopt', 'a': 'h0', 'b': 't%d' % k}, {'op': 'store', 'via': 'h0', 'h': 't%d' % k}]
                    if hist == 'unadopted':
                        for k in range(a):
                            ops += [{'op': 'take', 'via': 'h0', 'slot': 0, 'as': 'u%d' % k}, {'op': 'unadopt', 'a': 'h0', 'b': 'u%d' % k}, {'op': 'drop', 'h': 'u%d' % k}]
                    elif hist == 'adopter-died-first':
                        ops += [{'op': 'drop', 'h': 'h0'}]
                    elif hist == 'adoptee-died-first':
                        # the owner lets go of its handles without unadopt, then the adoptee dies
                        for k in range(a):
                            ops += [{'op': 'take', 'via': 'h0', 'slot': 0, 'as': 'u%d' % k}, {'op': 'drop', 'h': 'u%d' % k}]
                        ops += [{'op': 'drop', 'h': 'h1'}]
                    elif who == 1:
                        # still adopted: the target can only be unwrapped when the owner's stored handles are gone
                        for k in range(a):
                            ops += [{'op': 'take', 'via': 'h0', 'slot': 0, 'as': 'u%d' % k}, {'op': 'drop', 'h': 'u%d' % k}]
                    if api == 'make_mut':
                        ops += [{'op': 'downgrade', 'h': H(who), 'as': 'ow'}, {'op': 'make_mut', 'h': H(who)}, {'op': 'upgrade', 'w': 'ow'}, {'op': 'wdrop', 'w': 'ow'}]
                        ops += [{'op': 'drop_all_wextras', 'obj': who}, {'op': 'drop', 'h': H(who)}]
                    else:
                        ops += [{'op': 'try_unwrap', 'h': H(who), 'as': 'res'}, {'op': 'drop_value', 'v': 'res'}, {'op': 'drop_all_wextras', 'obj': who}]
                    other = 1 - who
                    if not (hist == 'adopter-died-first' and other == 0) and not (hist == 'adoptee-died-first' and other == 1):
                        ops += [{'op': 'drop', 'h': H(other)}]
                    items.append(dict(prop='C04', name='leave-by-%s %s x%d on %d' % (api, hist, a, who), script={'ops': ops}, sym=True, oracles={'C04'}, opts=o,
                                      layouts=std_layouts(2, tier, seed)[:2]))
    return items


def weak_after_death_items(tier, seed):
    """Weak handles that outlive their object and are then cloned / sent through into_raw + from_raw / compared before they are
    dropped: the bare allocation must go when the last of them goes"""
    items = []
    R = lambda i, j: (i, j, True, False)
    o = {'expect_all_freed': True, 'panics_ok': True}
    for (n, e, nm) in [(1, [], 'plain1'), (2, [R(0, 1)], 'owner-target'), (2, [R(0, 1), R(1, 0)], 'ring2'), (1, [(0, 0, True, False)], 'selfclone1')]:
        for tgt in range(n):
            for when in ('raw-after-death', 'raw-across-death', 'clone-after-death'):
                ops = F.build_ops(n, e, extras=False, wextras=False) + [{'op': 'wextras', 'h': H(tgt), 'n': 'w%d' % tgt}, {'op': 'downgrade', 'h': H(tgt), 'as': 'ow'}]
                if when == 'raw-across-death':
                    ops += [{'op': 'w_into_raw', 'w': 'ow', 'as': 'wr'}]
                ops += F.drop_ops([('h', i) for i in range(n)])
                if when == 'raw-after-death':
                    ops += [{'op': 'w_into_raw', 'w': 'ow', 'as': 'wr'}]
                if when == 'clone-after-death':
                    ops += [{'op': 'wclone', 'w': 'ow', 'as': 'ow2'}, {'op': 'w_ptr_eq', 'a': 'ow', 'b': 'ow2'}, {'op': 'wdrop', 'w': 'ow2'}]
                else:
                    ops += [{'op': 'w_from_raw', 'r': 'wr', 'as': 'ow'}]
                ops += [{'op': 'upgrade', 'w': 'ow'}, {'op': 'w_strong_count', 'w': 'ow'}, {'op': 'drop_all_wextras', 'obj': tgt}, {'op': 'w_weak_count', 'w': 'ow'}, {'op': 'wdrop', 'w': 'ow'}]
                items.append(dict(prop='C04', name='weak-after-death %s %s on %d' % (nm, when, tgt), script={'ops': ops}, sym=True, oracles={'C04', 'C05'}, accept_props=['C04', 'C05'],
                                  relabel=True, opts=o, layouts=std_layouts(n, tier, seed)[:2]))
    return items


def clone_panics_items(tier, seed):
    """make_mut on a shared object whose T::clone panics (caught): the caller's handle is untouched, and when everything has been
    dropped nothing may remain allocated (the allocation make_mut prepared for the copy included)"""
    items = []
    R = lambda i, j: (i, j, True, False)
    o = {'expect_all_freed': True, 'panics_ok': True}
    for (n, e, nm) in [(1, [], 'plain1'), (2, [R(0, 1)], 'owner-target'), (2, [R(0, 1), R(1, 0)], 'ring2')]:
        for tgt in range(n):
            for weak in (False, True):
                ops = F.build_ops(n, e, extras=False) + [{'op': 'clone', 'h': H(tgt), 'as': 'sh'}]
                if weak:
                    ops += [{'op': 'downgrade', 'h': H(tgt), 'as': 'ow'}]
                ops += [{'op': 'clone_mode', 'mode': 'panic'}, {'op': 'catch', 'do': [{'op': 'make_mut', 'h': H(tgt)}]}, {'op': 'clone_mode', 'mode': 'linked'},
                        {'op': 'strong_count', 'h': H(tgt)}, {'op': 'deref', 'h': H(tgt)}, {'op': 'drop', 'h': 'sh'}]
                if weak:
                    ops += [{'op': 'upgrade', 'w': 'ow'}, {'op': 'wdrop', 'w': 'ow'}]
                ops += F.drop_ops([('h', i) for i in range(n)])
                items.append(dict(prop='C04', name='make_mut with panicking T::clone on %d of %s%s' % (tgt, nm, ' +Weak' if weak else ''), script={'ops': ops}, sym=True,
                                  oracles={'C04', 'C06'}, accept_props=['C04', 'C06'], relabel=True, opts=o, layouts=std_layouts(n, tier, seed)[:2]))
    return items


def items_C04(tier, seed, P):
    o = {'expect_all_freed': True}
    return (leave_by_api_items(tier, seed) + weak_after_death_items(tier, seed) + clone_panics_items(tier, seed) + weak_graph_items('C04', tier, seed, {'C04'}, opts=o, end_all=True)
            + weak_graph_items('C04', tier, seed, {'C04'}, opts=o, end_all=True, dtor_upgrades=False, one_weak=True)     # the only Weak lives inside a value
            + lemma_items('C04', ['weakdrop']))


PROPS['C04'] = dict(items=items_C04, bounds=BOUNDS_GRAPH, outside=OUTSIDE, vacuity=vac_paths('dtor', 'multi_destroy_ops'), replay_oracles=['C04'],
                    assumptions=['histories end with every program handle dropped: strong extras are fixed to 0 in this family; the w_j additional Weak handles are symbolic and dropped through the weak-drop generalisation lemma'])


# ------------------------------------------------------------------ C16
def items_C16(tier, seed, P):
    items = lemma_items('C16', ['clone'])
    shapes = [(2, F.named_shapes(2)['ring2'], 'ring2'), (1, [(0, 0, True, False)], 'selfclone1')]
    for nm, e in F.named_shapes(3).items():
        shapes.append((3, e, nm))
    # a ring member that also carries upstream's "no effect" same-handle self adoption (two keys in the trace result)
    shapes.append((2, F.named_shapes(2)['ring2'] + [(0, 0, True, 'noop')], 'ring2+noop-self@0'))
    shapes.append((3, F.named_shapes(3)['ring3'] + [(1, 1, True, 'noop')], 'ring3+noop-self@1'))
    if tier != 'quick':
        for nm, e in F.named_shapes(4).items():
            shapes.append((4, e, nm))
        for e in F.shapes(2, max_mult=2, recorded_only=True):
            shapes.append((2, e, F.describe(2, e)))
    for (n, e, nm) in shapes:
        outdeg = {}
        for (i, j, r, s) in e:
            if s != 'noop':
                outdeg[i] = outdeg.get(i, 0) + 1
        for actor in range(n):
            for k in range(outdeg.get(actor, 0)):
                for what in ('clone', 'none'):
                    base = F.build_ops(n, e, extras=True)
                    if what == 'clone':
                        base.append({'op': 'on_drop', 'obj': actor, 'do': [{'op': 'clone', 'h': '@%d' % k, 'as': 'zz'}]})
                    for seq in F.drop_sequences(n, n)[:2 if tier == 'quick' else None]:
                        ops = list(base) + F.drop_ops(seq)
                        if what == 'clone' and 'noop' not in nm:
                            # the acting value also holds the ONLY Weak to the object behind handle @k; its destructor lets go of that
                            # Weak first, allocates something fresh, and only then clones (or drops) the handle
                            tgt = [j for (i, j, r, s) in e if i == actor and s != 'noop'][k]
                            for last in ('clone', 'drop'):
                                o2 = F.build_ops(n, e, extras=True) + [{'op': 'downgrade', 'h': H(tgt), 'as': 'lw'}, {'op': 'store_weak', 'via': H(actor), 'w': 'lw'}]
                                o2.append({'op': 'on_drop', 'obj': actor, 'do': [{'op': 'self_take_weak', 'slot': 0, 'as': 'lw2'}, {'op': 'wdrop', 'w': 'lw2'}, {'op': 'new', 'obj': n + 5, 'as': 'fresh'}] +
                                           ([{'op': 'clone', 'h': '@%d' % k, 'as': 'zz'}] if last == 'clone' else [{'op': 'self_take', 'slot': k, 'as': 'zz'}, {'op': 'drop', 'h': 'zz'}, {'op': 'strong_count', 'h': 'fresh'}])})
                                o2 += F.drop_ops(seq) + [{'op': 'drop_if', 'h': 'fresh'}]
                                items.append(dict(prop='C16', name='%s dtor%d drops-last-Weak-then-%s @%d drops=%s' % (nm, actor, last, k, ''.join('%s%d' % s for s in seq)),
                                                  script={'ops': o2}, sym=True, oracles={'C16', 'C06'}, accept_props=['C16', 'C06'], relabel=True,
                                                  opts={'abort_ok': 'clone-of-dead', 'panics_ok': True, 'count_after_each': False}, layouts=std_layouts(n, tier, seed)[:2]))
                        items.append(dict(prop='C16', name='%s dtor%d %s @%d drops=%s' % (nm, actor, what, k, ''.join('%s%d' % s for s in seq)),
                                          script={'ops': ops}, sym=True, oracles={'C16'}, opts={'abort_ok': 'clone-of-dead', 'panics_ok': True},
                                          layouts=std_layouts(n, tier, seed)[:3] + ([('rank', tuple(range(n)), (2, 0, 1), 'kind', False), ('rank', tuple(range(n)), (1, 2, 0), 'obj', False)] if 'noop' in nm else [])))
    return items


def _debug_profile_copies(items, pred, limit):
    """the same work items once more on the MIR of the debug profile (debug assertions on)"""
    out = []
    for it in items:
        if len(out) >= limit:
            break
        if pred(it):
            c = dict(it)
            c['profile'] = 'debug'
            c['name'] = it['name'] + ' [debug profile]'
            out.append(c)
    return out


def vac_C16(results, extra):
    ab = sum(r['outcomes'].get('abort', 0) for r in results if not r['name'].startswith('lemma'))
    if ab == 0:
        return 'no scenario path reached a clone of a dead handle (abort)'
    return None


_items_C16_release = items_C16


def items_C16(tier, seed, P):
    its = _items_C16_release(tier, seed, P)
    return its + _debug_profile_copies(its, lambda it: not it['name'].startswith('lemma') and ('ring2 ' in it['name'] or 'ring3 ' in it['name'] or 'selfclone' in it['name']), 60 if tier == 'quick' else 400)


PROPS['C16'] = dict(items=items_C16, bounds={'quick': {'unit': 'inc_strong / Rc::clone over all 2^64 counter values', 'scenarios': 'ring2, self-clone, named N=3 shapes; each member destructor clones each handle it holds; 2 drop orders; 3 layouts'},
                                             'thorough': {'unit': 'as quick', 'scenarios': 'plus named N=4 shapes, N=2 multiplicity 2, all drop orders'}},
                    outside=OUTSIDE, vacuity=vac_C16, replay_oracles=['C16'])


# ------------------------------------------------------------------ C10 re-entrant destructors
def c10_shapes(tier):
    R = lambda i, j: (i, j, True, False)
    sh = [(1, [], 'plain1'), (2, [(0, 1, False, False)], 'chain-unrecorded'), (2, [R(0, 1)], 'owner-target'),
          (1, [(0, 0, True, False)], 'selfclone1'), (2, [R(0, 1), R(1, 0)], 'ring2'), (3, F.named_shapes(3)['ring2+tail'], 'ring2+tail'),
          (3, F.named_shapes(3)['owner-of-ring2'], 'owner-of-ring2'),
          # ring members that also carry upstream's no-effect same-handle self adoption (a second, Loopback key in the trace result)
          (2, [R(0, 1), R(1, 0), (0, 0, True, 'noop')], 'ring2+noop-self@0'), (2, [R(0, 1), (1, 1, True, 'noop')], 'owner-target+noop-self@1'),
          # an outside owner that adopted a ring member twice: its death (zero count) must purge both records before its value drops the handles
          (3, [R(0, 1), R(0, 1), R(1, 2), R(2, 1)], 'doubled-tail-into-ring2')]
    if tier != 'quick':
        sh.append((3, F.named_shapes(3)['ring3'] + [(1, 1, True, 'noop')], 'ring3+noop-self@1'))
        for nm, e in F.named_shapes(3).items():
            if nm not in ('ring2+tail', 'owner-of-ring2'):
                sh.append((3, e, nm))
        sh.append((4, F.named_shapes(4)['tworings4'], 'tworings4'))
    return sh


def c10_actions(n):
    """actions a destructor performs on bystanders: B = object n (handle hB, symbolic extras), group {P,Q} = n+1,n+2 (only hP held)"""
    A = {}
    A['clone'] = [{'op': 'clone', 'h': 'hB', 'as': 'x1'}]
    A['clone-drop'] = [{'op': 'clone', 'h': 'hB', 'as': 'x1'}, {'op': 'drop', 'h': 'x1'}]
    A['drop'] = [{'op': 'drop', 'h': 'hB'}]
    A['downgrade-upgrade'] = [{'op': 'downgrade', 'h': 'hB', 'as': 'wx'}, {'op': 'upgrade', 'w': 'wx', 'as': 'y1'}, {'op': 'w_strong_count', 'w': 'wx'}]
    A['adopt'] = [{'op': 'clone', 'h': 'hP', 'as': 'tt'}, {'op': 'adopt', 'a': 'hB', 'b': 'tt'}, {'op': 'store', 'via': 'hB', 'h': 'tt'}]
    A['unadopt'] = [{'op': 'take', 'via': 'hP', 'slot': 0, 'as': 'tq'}, {'op': 'unadopt', 'a': 'hP', 'b': 'tq'}, {'op': 'strong_count', 'h': 'tq'}]
    A['nested-collection'] = [{'op': 'drop', 'h': 'hP'}]
    # the same with Q having adopted P twice (P's in-degree exceeds its out-degree)
    A['nested-collection-x2'] = [{'op': 'drop', 'h': 'hP'}]
    A['counts'] = [{'op': 'strong_count', 'h': 'hB'}, {'op': 'weak_count', 'h': 'hB'}, {'op': 'deref', 'h': 'hB'}]
    # lets go of the Weak to its dying peer that its value holds (possibly the last Weak to that peer), allocates, then looks at the bystander
    A['drop-own-weak'] = [{'op': 'self_take_weak', 'slot': 0, 'as': 'ownw'}, {'op': 'wdrop', 'w': 'ownw'}, {'op': 'new', 'obj': n + 7, 'as': 'fresh'},
                          {'op': 'strong_count', 'h': 'fresh'}, {'op': 'strong_count', 'h': 'hB'}]
    return A


def items_C10(tier, seed, P):
    items = []
    for (n, e, nm) in c10_shapes(tier):
        B, Pp, Q = n, n + 1, n + 2
        for actor in range(n):
            for an, acts in c10_actions(n).items():
                ops = F.build_ops(n, e, extras=True)
                ops += [{'op': 'new', 'obj': B, 'as': 'hB'}, {'op': 'extras', 'h': 'hB', 'n': 'eB'},
                        {'op': 'new', 'obj': Pp, 'as': 'hP'}, {'op': 'new', 'obj': Q, 'as': 'hQ'},
                        {'op': 'clone', 'h': 'hQ', 'as': 'tq0'}, {'op': 'adopt', 'a': 'hP', 'b': 'tq0'}, {'op': 'store', 'via': 'hP', 'h': 'tq0'},
                        {'op': 'clone', 'h': 'hP', 'as': 'tp0'}, {'op': 'adopt', 'a': 'hQ', 'b': 'tp0'}, {'op': 'store', 'via': 'hQ', 'h': 'tp0'}]
                if an == 'nested-collection-x2':
                    ops += [{'op': 'clone', 'h': 'hP', 'as': 'tp1'}, {'op': 'adopt', 'a': 'hQ', 'b': 'tp1'}, {'op': 'store', 'via': 'hQ', 'h': 'tp1'}]
                ops += [{'op': 'drop', 'h': 'hQ'}]
                # a Weak to a peer of the dying group, upgraded by the destructor (must be None or keep the peer alive)
                peer = (actor + 1) % n
                ops += [{'op': 'downgrade', 'h': H(peer), 'as': 'wp'}, {'op': 'store_weak', 'via': H(actor), 'w': 'wp'}]
                ops.append({'op': 'on_drop', 'obj': actor, 'do': [{'op': 'upgrade', 'w': '^0', 'as': 'kp'}] + acts})
                for seq in F.drop_sequences(n, n):
                    o2 = list(ops)
                    for (k, i) in seq:
                        o2 += F.drop_ops([(k, i)])
                        o2.append({'op': 'drop_if', 'h': 'kp'})
                    items.append(dict(prop='C10', name='%s dtor%d:%s drops=%s' % (nm, actor, an, ''.join('%s%d' % s for s in seq)), script={'ops': o2},
                                      sym=True, oracles={'C01', 'C02', 'C03', 'C05', 'C06', 'C10'}, accept_props=['C10', 'C01', 'C02', 'C03', 'C05', 'C06'],
                                      relabel=True, ub_prop='C10', opts={}, layouts=std_layouts(n, tier, seed)[:2 if tier == 'quick' else 4]
                                      + ([('rank', tuple(range(n)), (2, 0, 1), 'kind', False), ('rank', tuple(range(n)), (1, 2, 0), 'obj', False)] if 'noop' in nm else [])))
    return items


def vac_dtor(results, extra):
    return vac_paths('dtor', 'multi_destroy_ops', 'upgrade:some', 'upgrade:none', 'strong_count')(results, extra)


PROPS['C10'] = dict(items=items_C10, bounds={'quick': {'shapes': 'plain object, unrecorded chain, owner/target, self-clone, ring2, ring2+tail, owner of a ring, ring2 / owner-target with a no-effect same-handle self adoption (Loopback-first table orders included); plus bystander B (symbolic extras) and a second group {P,Q}', 'positions': 'each member destructor of each shape', 'actions': 'one of: clone, clone+drop, drop (possibly last), downgrade+upgrade, adopt, unadopt, drop of the last handle of group {P,Q} (nested collection), counts/deref; every acting destructor also upgrades a Weak to a dying peer', 'layouts': 2},
                                             'thorough': {'shapes': 'plus named N=3 shapes, two rings', 'layouts': 4}},
                    outside=OUTSIDE + ['two injected actions per path', 'actions on objects that are themselves being destroyed (C16)'], vacuity=vac_dtor,
                    replay_oracles=['C01', 'C02', 'C03', 'C05', 'C06', 'C10'])


# ------------------------------------------------------------------ C11 panicking destructor
def items_C11(tier, seed, P):
    items = []
    R = lambda i, j: (i, j, True, False)
    sh = [(1, [], 'plain1'), (2, [(0, 1, False, False)], 'chain-unrecorded'), (2, [R(0, 1)], 'owner-target'),
          (1, [(0, 0, True, False)], 'selfclone1'), (2, [R(0, 1), R(1, 0)], 'ring2')]
    for nm, e in F.named_shapes(3).items():
        sh.append((3, e, nm))
    sh.append((2, [R(0, 1), R(1, 0), (0, 0, True, 'noop')], 'ring2+noop-self@0'))
    if tier != 'quick':
        for nm, e in F.named_shapes(4).items():
            sh.append((4, e, nm))
        sh.append((3, F.named_shapes(3)['ring3'] + [(1, 1, True, 'noop')], 'ring3+noop-self@1'))
    for (n, e, nm) in sh:
        for k in range(n):
            for seq in F.drop_sequences(n, n)[:3 if tier == 'quick' else None]:
                ops = F.build_ops(n, e, extras=True, wextras=False)
                ops.append({'op': 'on_drop_panic', 'obj': k})
                for i in range(n):
                    ops.append({'op': 'downgrade', 'h': H(i), 'as': 'ow%d' % i})
                for (kk, i) in seq:
                    ops.append({'op': 'catch', 'do': F.drop_ops([(kk, i)])})
                    for j in range(n):
                        # the temporary handle of a successful upgrade is dropped inside the catch: that drop may itself
                        # orphan a group and run the panicking destructor
                        ops += [{'op': 'catch', 'do': [{'op': 'upgrade', 'w': 'ow%d' % j}]}, {'op': 'w_strong_count', 'w': 'ow%d' % j}]
                for j in range(n):
                    ops.append({'op': 'wdrop', 'w': 'ow%d' % j})
                items.append(dict(prop='C11', name='%s panic@%d drops=%s' % (nm, k, ''.join('%s%d' % s for s in seq)), script={'ops': ops}, sym=True,
                                  oracles={'C11', 'C01', 'C02', 'C05', 'C03'}, accept_props=['C11', 'C01', 'C02', 'C05', 'C03'], relabel=True, ub_prop='C11',
                                  opts={}, layouts=std_layouts(n, tier, seed)[:3 if tier == 'quick' else 6]))
                # the same history with no Weak observer anywhere: allocations whose last Weak is the implicit one may be
                # released by the interrupted teardown, and the destructors that still run afterwards drop their stored handles
                ops2 = F.build_ops(n, e, extras=True, wextras=False)
                ops2.append({'op': 'on_drop_panic', 'obj': k})
                for (kk, i) in seq:
                    ops2.append({'op': 'catch', 'do': F.drop_ops([(kk, i)])})
                    for (k2, j) in seq[seq.index((kk, i)) + 1:]:
                        ops2 += [{'op': 'strong_count', 'h': H(j)}, {'op': 'deref', 'h': H(j)}]
                items.append(dict(prop='C11', name='%s (no observers) panic@%d drops=%s' % (nm, k, ''.join('%s%d' % s for s in seq)), script={'ops': ops2}, sym=True,
                                  oracles={'C11', 'C01', 'C02'}, accept_props=['C11', 'C01', 'C02'], relabel=True, ub_prop='C11',
                                  opts={}, layouts=std_layouts(n, tier, seed)[:2 if tier == 'quick' else 4]))
    # make_mut on the last outside handle of a group (value cloned into a fresh allocation, old handle released inside make_mut):
    # the release collects the group and one destructor panics; afterwards the caller's handle must be the fresh copy
    for (n, e, nm) in [(2, [R(0, 1), R(1, 0)], 'ring2'), (3, F.named_shapes(3)['ring3'], 'ring3'), (1, [(0, 0, True, False)], 'selfclone1')]:
        for k in range(n):
            for mode in ('unlinked', 'linked'):
                ops = F.build_ops(n, e, extras=True) + [{'op': 'on_drop_panic', 'obj': k}, {'op': 'clone_mode', 'mode': mode}]
                for i in range(n):
                    ops.append({'op': 'downgrade', 'h': H(i), 'as': 'ow%d' % i})
                for i in range(1, n):
                    ops.append({'op': 'catch', 'do': [{'op': 'drop', 'h': H(i)}]})
                ops.append({'op': 'catch', 'do': [{'op': 'make_mut', 'h': H(0)}]})
                ops += [{'op': 'deref', 'h': H(0)}, {'op': 'strong_count', 'h': H(0)}, {'op': 'downgrade', 'h': H(0), 'as': 'nw'}, {'op': 'catch', 'do': [{'op': 'upgrade', 'w': 'nw'}]}]
                for j in range(n):
                    ops += [{'op': 'catch', 'do': [{'op': 'upgrade', 'w': 'ow%d' % j}]}, {'op': 'w_strong_count', 'w': 'ow%d' % j}]
                ops.append({'op': 'catch', 'do': [{'op': 'drop', 'h': H(0)}]})
                items.append(dict(prop='C11', name='%s make_mut(%s clone) panic@%d' % (nm, mode, k), script={'ops': ops}, sym=True,
                                  oracles={'C11', 'C01', 'C02', 'C05', 'C06'}, accept_props=['C11', 'C01', 'C02', 'C05', 'C06'], relabel=True, ub_prop='C11',
                                  opts={'count_after_each': False}, layouts=std_layouts(n, tier, seed)[:3]))
    # a recorded handle given up without unadopt (documented as safe), whose target's destructor panics when it dies alone;
    # afterwards the former owner's group is orphaned
    for panic_obj in (2, 0):
        for keep in (False, True):
            ops = [{'op': 'new', 'obj': i, 'as': H(i)} for i in range(3)]
            ops += [{'op': 'extras', 'h': H(i), 'n': 'e%d' % i} for i in range(3)]
            ops += [{'op': 'clone', 'h': H(1), 'as': 'r0'}, {'op': 'adopt', 'a': H(0), 'b': 'r0'}, {'op': 'store', 'via': H(0), 'h': 'r0'},
                    {'op': 'clone', 'h': H(0), 'as': 'r1'}, {'op': 'adopt', 'a': H(1), 'b': 'r1'}, {'op': 'store', 'via': H(1), 'h': 'r1'},
                    {'op': 'clone', 'h': H(2), 'as': 'x0'}, {'op': 'adopt', 'a': H(0), 'b': 'x0'}, {'op': 'store', 'via': H(0), 'h': 'x0'},
                    {'op': 'take', 'via': H(0), 'slot': 1, 'as': 'st'}, {'op': 'on_drop_panic', 'obj': panic_obj}]
            for i in range(3):
                ops.append({'op': 'downgrade', 'h': H(i), 'as': 'ow%d' % i})
            order = ['st', H(2), H(0), H(1)] if not keep else [H(2), H(0), H(1), 'st']
            for hn in order:
                ops.append({'op': 'catch', 'do': [{'op': 'drop', 'h': hn}]})
                for j in range(3):
                    ops += [{'op': 'catch', 'do': [{'op': 'upgrade', 'w': 'ow%d' % j}]}, {'op': 'w_strong_count', 'w': 'ow%d' % j}]
            for j in range(3):
                ops.append({'op': 'wdrop', 'w': 'ow%d' % j})
            items.append(dict(prop='C11', name='forgotten-unadopt + panic@%d %s' % (panic_obj, 'kept' if keep else 'dropped'), script={'ops': ops}, sym=True,
                              oracles={'C11', 'C02', 'C05'}, accept_props=['C11', 'C02', 'C05'], relabel=True, ub_prop='C11',
                              opts={'stale': True}, tags=['stale'], layouts=std_layouts(3, tier, seed)[:3 if tier == 'quick' else 6]))
    return items


def vac_C11(results, extra):
    n = 0
    for r in results:
        s = r.get('sample')
        if s and any(t[0] == 'ret' and t[1] == 'catch' and t[2] == 'panicked' for t in s['trace'] if len(t) > 2):
            n += 1
    return vac_paths('dtor', 'multi_destroy_ops', 'catch:panicked', 'catch:ok', 'upgrade:none')(results, extra)


PROPS['C11'] = dict(items=items_C11, bounds={'quick': {'shapes': 'plain, unrecorded chain, owner/target, self-clone, ring2, named N=3 shapes', 'fault': 'the destructor of member k panics (every k), one panic per history', 'orders': '3 drop orders', 'layouts': 3},
                                             'thorough': {'shapes': 'plus named N=4', 'orders': 'all', 'layouts': 6}},
                    outside=OUTSIDE + ['two panics (abort)', 'drop glue of Vec/slices is summarised: remaining elements are dropped after one element panics'],
                    vacuity=vac_C11, replay_oracles=['C11', 'C01', 'C02', 'C05', 'C03'])


# ------------------------------------------------------------------ C13 forgetting unadopt
def items_C13(tier, seed, P):
    items = []
    shapes = []
    for n in (1, 2):
        for e in F.shapes(n, max_mult=1 if tier == 'quick' else 2, recorded_only=True, allow_same=False):
            if e:
                shapes.append((n, e, F.describe(n, e)))
    for nm, e in F.named_shapes(3).items():
        if 'same' not in nm:
            shapes.append((3, e, nm))
    R = lambda i, j: (i, j, True, False)
    # unequal multiplicities between a pair; every handle of one direction is taken out without unadopt
    for (n, e, nm) in [(2, [R(0, 1), R(0, 1), R(1, 0)], 'N2[0=>1 x2, 1=>0]'), (2, [R(0, 1), R(1, 0), R(1, 0)], 'N2[0=>1, 1=>0 x2]'), (2, [R(0, 1), R(0, 1)], 'N2[0=>1 x2]')]:
        cnt = sum(1 for (a, b, c, d) in e if a == 0 and b == 1)
        first = [k for k, (a, b, c, d) in enumerate([x for x in e if x[0] == 0]) if b == 1]
        base = F.build_ops(n, e, extras=True)
        for k in range(cnt):
            base.append({'op': 'take', 'via': H(0), 'slot': first[0], 'as': 'st%d' % k})
        for k in range(cnt):
            base.append({'op': 'drop', 'h': 'st%d' % k})
        for seq in F.drop_sequences(n, n):
            items.append(dict(prop='C13', name='%s forget-unadopt ALL 0->1 dropped drops=%s' % (nm, ''.join('%s%d' % q for q in seq)),
                              script={'ops': list(base) + F.drop_ops(seq)}, sym=True, oracles={'C13'}, opts={'stale': True, 'panics_ok': False}, tags=['stale'],
                              layouts=std_layouts(n, tier, seed)[:3]))
    for (n, e, nm) in shapes:
        # slot index of each edge inside its owner
        for ei, (i, j, r, s) in enumerate(e):
            slot = sum(1 for (a, b, c, d) in e[:ei] if a == i)
            for keep in (True, False):
                base = F.build_ops(n, e, extras=True)
                base.append({'op': 'take', 'via': H(i), 'slot': slot, 'as': 'st'})
                if not keep:
                    base.append({'op': 'drop', 'h': 'st'})
                for seq in F.drop_sequences(n, n):
                    ops = list(base)
                    for (k, x) in seq:
                        ops += F.drop_ops([(k, x)])
                        if keep:
                            ops.append({'op': 'deref', 'h': 'st'})
                    if keep:
                        ops += [{'op': 'strong_count', 'h': 'st'}, {'op': 'drop', 'h': 'st'}]
                    items.append(dict(prop='C13', name='%s forget-unadopt %d->%d %s drops=%s' % (nm, i, j, 'kept' if keep else 'dropped', ''.join('%s%d' % q for q in seq)),
                                      script={'ops': ops}, sym=True, oracles={'C13'}, opts={'stale': True, 'panics_ok': False}, tags=['stale'],
                                      layouts=std_layouts(n, tier, seed)[:2 if tier == 'quick' else 5]))
    return items


def _items_C13_plus_api(tier, seed, P):
    """C13's own histories plus C12's: a peer gave its handles away without unadopt and the object then leaves through try_unwrap /
    make_mut (with Weak handles outstanding) - under C13's oracle (nothing the program holds is destroyed, no monitor event)"""
    out = items_C13(tier, seed, P)
    for it in items_C12(tier, seed, P):
        if 'stale' in it.get('tags', []):
            c = dict(it)
            c.update(prop='C13', oracles={'C13'}, accept_props=['C13'], relabel=False, ub_prop='C13', name='leave-by-API after elided unadopt: ' + it['name'],
                     opts={'panics_ok': False, 'stale': True})
            out.append(c)
    return out


PROPS['C13'] = dict(items=_items_C13_plus_api, bounds={'quick': {'shapes': 'all fully recorded shapes N<=2 (held<=1), named N=3 shapes', 'history': 'one recorded handle is taken out of its owner without unadopt and then kept by the program or dropped; then every order of dropping the named handles; Deref of the kept handle after each step', 'counters': 'symbolic extras', 'layouts': 2},
                                             'thorough': {'shapes': 'held<=2', 'layouts': 5}},
                    outside=OUTSIDE, vacuity=vac_paths('dtor', 'deref'), replay_oracles=['C13'])


# ------------------------------------------------------------------ C12 handle-consuming APIs
def items_C12(tier, seed, P):
    items = []
    R = lambda i, j: (i, j, True, False)
    sh = [(2, [R(0, 1)], 'owner-target'), (2, [R(0, 1), R(1, 0)], 'ring2'), (1, [(0, 0, True, False)], 'selfclone1'),
          (3, [R(0, 1), R(1, 2)], 'chain3'), (3, F.named_shapes(3)['ring3'], 'ring3'), (3, F.named_shapes(3)['ring2+tail'], 'ring2+tail'),
          (2, [R(0, 1), R(0, 1)], 'owner-target x2'), (3, [R(0, 1), R(0, 1), R(0, 2)], 'owner of two, one doubled'),
          (3, F.named_shapes(3)['owner-of-ring2'], 'owner-of-ring2')]
    apis = {
        'try_unwrap': lambda h: [{'op': 'try_unwrap', 'h': h, 'as': 'res'}],
        'try_unwrap+weak': lambda h: [{'op': 'downgrade', 'h': h, 'as': 'wk'}, {'op': 'try_unwrap', 'h': h, 'as': 'res'}, {'op': 'upgrade', 'w': 'wk'}],
        'make_mut': lambda h: [{'op': 'make_mut', 'h': h}],
        'make_mut+weak': lambda h: [{'op': 'downgrade', 'h': h, 'as': 'wk'}, {'op': 'make_mut', 'h': h}, {'op': 'upgrade', 'w': 'wk'}],
        'get_mut': lambda h: [{'op': 'get_mut', 'h': h}],
        'raw-roundtrip': lambda h: [{'op': 'into_raw', 'h': h, 'as': 'rw'}, {'op': 'from_raw', 'r': 'rw', 'as': h}],
        'inc-dec': lambda h: [{'op': 'as_ptr', 'h': h, 'as': 'rp'}, {'op': 'inc_strong', 'r': 'rp'}, {'op': 'strong_count', 'h': h}, {'op': 'dec_strong', 'r': 'rp'}],
    }
    # mutual adoption with unequal multiplicities; the peer gives up its handles without unadopt (allowed), so the object
    # has a sole strong handle although it is recorded as adopted
    for (e, nm, takes) in [([R(0, 1), R(1, 0), R(1, 0)], 't=>x, x=>t x2; x gives up both', 2), ([R(0, 1), R(0, 1), R(1, 0)], 't=>x x2, x=>t; x gives up its handle', 1),
                           # t has adopted itself through a clone and given that handle up again without unadopt; it still owns x
                           ([(0, 0, True, False), R(0, 1)], 't=>t (clone), t=>x; t gives up its self handle', -1)]:
        for an in ('try_unwrap', 'try_unwrap+weak', 'make_mut+weak'):
            # the object that is unwrapped / stolen has exactly one strong handle (otherwise the call is a no-op and the stale
            # record alone decides, which is C13's subject); its peer may be held any number of times
            base = F.build_ops(2, e, extras=False, wextras=True)
            base.insert(2, {'op': 'extras', 'h': H(1), 'n': 'e1'})
            for k in range(takes):
                base += [{'op': 'take', 'via': H(1), 'slot': 0, 'as': 'g%d' % k}, {'op': 'drop', 'h': 'g%d' % k}]
            if takes == -1:
                base += [{'op': 'take', 'via': H(0), 'slot': 0, 'as': 'g0'}, {'op': 'drop', 'h': 'g0'}]
            base += apis[an](H(0))
            for tail in ([{'op': 'clone', 'h': H(1), 'as': 'cx'}, {'op': 'drop', 'h': 'cx'}, {'op': 'drop', 'h': H(1)}], [{'op': 'drop', 'h': H(1)}]):
                ops = list(base) + tail
                ops.append({'op': 'drop_any', 'h': 'res'} if an.startswith('try_unwrap') else {'op': 'drop', 'h': H(0)})
                if 'weak' in an:
                    ops.append({'op': 'wdrop', 'w': 'wk'})
                items.append(dict(prop='C12', name='%s %s then %d ops' % (nm, an, len(tail)), script={'ops': ops}, sym=True,
                                  oracles={'C12', 'C08', 'C04'}, accept_props=['C12', 'C08', 'C04'], relabel=True, ub_prop='C12', tags=['stale'],
                                  opts={'tables_exact': False, 'panics_ok': False, 'expect_all_freed': True, 'stale': True}, layouts=std_layouts(2, tier, seed)[:4]))
    for (n, e, nm) in sh:
        for tgt in range(n):
            for an, mk in apis.items():
                for pre in ([], [('h', (tgt + 1) % n)] if n > 1 else []):
                    base = F.build_ops(n, e, extras=True, wextras=True)
                    base += F.drop_ops(pre)
                    base += mk(H(tgt))
                    rest = [i for i in range(n) if ('h', i) not in pre]
                    for perm in (itertools.permutations(rest) if tier != 'quick' else [tuple(rest), tuple(reversed(rest))]):
                        ops = list(base)
                        for i in perm:
                            if an.startswith('try_unwrap') and i == tgt:
                                ops.append({'op': 'drop_any', 'h': 'res'})
                            else:
                                ops.append({'op': 'drop', 'h': H(i)})
                        if 'weak' in an:
                            ops.append({'op': 'wdrop', 'w': 'wk'})
                        items.append(dict(prop='C12', name='%s %s on %d pre=%s then %s' % (nm, an, tgt, pre, perm), script={'ops': ops}, sym=True,
                                          oracles={'C12', 'C08', 'C04', 'C03'}, accept_props=['C12', 'C08', 'C04', 'C03'], relabel=True, ub_prop='C12',
                                          opts={'tables_exact': True, 'panics_ok': False, 'expect_all_freed': True}, layouts=std_layouts(n, tier, seed)[:2 if tier == 'quick' else 4]))
    return items


PROPS['C12'] = dict(items=items_C12, bounds={'quick': {'shapes': 'owner/target, ring2, self-clone, chain3, ring3, ring2+tail', 'calls': 'try_unwrap (with/without Weak), make_mut (with/without Weak), get_mut, into_raw/from_raw, increment/decrement_strong_count on every object, optionally after dropping a neighbour; then the remaining handles are dropped in 2 orders', 'counters': 'extra strong and Weak handles per object symbolic 64-bit: z3 decides the strong==1 / weak==0 branches of try_unwrap, get_mut and make_mut'},
                                             'thorough': {'orders': 'all drop orders', 'layouts': 4}},
                    outside=OUTSIDE, vacuity=vac_paths('dtor', 'try_unwrap:ok', 'try_unwrap:err', 'make_mut:cloned', 'make_mut:moved', 'make_mut:inplace', 'get_mut:some', 'get_mut:none'), replay_oracles=['C12', 'C08', 'C04', 'C03'])


# ------------------------------------------------------------------ C14 pay-as-you-go
def items_C14(tier, seed, P):
    items = []

    def add(name, ops, n, witness=False):
        items.append(dict(prop='C14', name=name, script={'ops': ops}, sym=True, oracles={'C14'}, opts={'panics_ok': True}, witness=witness,
                          layouts=std_layouts(n, tier, seed)[:2]))
    cost_all = lambda h, tag: [{'op': 'cost_clone', 'h': h, 'as': 'cc_' + tag}, {'op': 'cost_drop', 'h': 'cc_' + tag}, {'op': 'cost_drop', 'h': h}]
    # (a) never adopted, any number of other handles / Weak handles
    add('never-adopted', [{'op': 'new', 'obj': 0, 'as': 'h0'}, {'op': 'extras', 'h': 'h0', 'n': 'e0'}, {'op': 'wextras', 'h': 'h0', 'n': 'w0'}] + cost_all('h0', 'a'), 1)
    # (b) adopted m times and fully unadopted again
    for m in (1, 2) if tier == 'quick' else (1, 2, 3):
        for extra_unadopt in (0, 1):
            ops = [{'op': 'new', 'obj': 0, 'as': 'h0'}, {'op': 'new', 'obj': 1, 'as': 'h1'}, {'op': 'extras', 'h': 'h0', 'n': 'e0'}, {'op': 'extras', 'h': 'h1', 'n': 'e1'}]
            for k in range(m):
                ops += [{'op': 'clone', 'h': 'h1', 'as': 't%d' % k}, {'op': 'adopt', 'a': 'h0', 'b': 't%d' % k}, {'op': 'store', 'via': 'h0', 'h': 't%d' % k}]
            for k in range(m):
                ops += [{'op': 'take', 'via': 'h0', 'slot': 0, 'as': 'u%d' % k}, {'op': 'unadopt', 'a': 'h0', 'b': 'u%d' % k}]
            for k in range(extra_unadopt):
                ops += [{'op': 'unadopt', 'a': 'h0', 'b': 'u0'}]
            for k in range(m):
                ops += [{'op': 'drop', 'h': 'u%d' % k}]
            add('adopted-%dx-then-unadopted(+%d) owner' % (m, extra_unadopt), ops + cost_all('h0', 'a') + [{'op': 'drop', 'h': 'h1'}], 2)
            add('adopted-%dx-then-unadopted(+%d) target' % (m, extra_unadopt), ops + cost_all('h1', 'a') + [{'op': 'drop', 'h': 'h0'}], 2)
    # (c) an object without adoptions stored inside members of an adopted ring
    ring = F.named_shapes(2)['ring2']
    ops = F.build_ops(2, ring, extras=True) + [{'op': 'new', 'obj': 2, 'as': 'hz'}, {'op': 'extras', 'h': 'hz', 'n': 'ez'},
                                               {'op': 'clone', 'h': 'hz', 'as': 'tz'}, {'op': 'store', 'via': 'h0', 'h': 'tz'}]
    add('inside-adopted-ring', ops + cost_all('hz', 'z') + [{'op': 'drop', 'h': 'h0'}, {'op': 'drop', 'h': 'h1'}], 3)
    # (d) self adoption through a clone, then unadopted
    ops = [{'op': 'new', 'obj': 0, 'as': 'h0'}, {'op': 'extras', 'h': 'h0', 'n': 'e0'}, {'op': 'clone', 'h': 'h0', 'as': 't'}, {'op': 'adopt', 'a': 'h0', 'b': 't'},
           {'op': 'store', 'via': 'h0', 'h': 't'}, {'op': 'take', 'via': 'h0', 'slot': 0, 'as': 'u'}, {'op': 'unadopt', 'a': 'h0', 'b': 'u'}, {'op': 'drop', 'h': 'u'}]
    add('self-adopted-then-unadopted', ops + cost_all('h0', 'a'), 1)
    ops = [{'op': 'new', 'obj': 0, 'as': 'h0'}, {'op': 'extras', 'h': 'h0', 'n': 'e0'}, {'op': 'adopt', 'a': 'h0', 'b': 'h0'}, {'op': 'unadopt', 'a': 'h0', 'b': 'h0'}]
    add('same-handle-adopted-then-unadopted', ops + cost_all('h0', 'a'), 1)
    # (e) all of the object's adoptions ended because its only neighbour was destroyed (a X->Y, b Y->X records; X let go of
    #     its handles to Y with or without unadopt): the survivor X has no adoptions left
    for (a, b) in ([(1, 0), (0, 1), (1, 1), (2, 1), (1, 2)] if tier == 'quick' else [(x, y) for x in range(4) for y in range(4) if x + y]):
        for stale in (True, False):
            if not stale and a == 0:
                continue
            ops = [{'op': 'new', 'obj': 0, 'as': 'h0'}, {'op': 'new', 'obj': 1, 'as': 'h1'}, {'op': 'extras', 'h': 'h0', 'n': 'e0'}]
            for k in range(a):
                ops += [{'op': 'clone', 'h': 'h1', 'as': 'ta%d' % k}, {'op': 'adopt', 'a': 'h0', 'b': 'ta%d' % k}, {'op': 'store', 'via': 'h0', 'h': 'ta%d' % k}]
            for k in range(b):
                ops += [{'op': 'clone', 'h': 'h0', 'as': 'tb%d' % k}, {'op': 'adopt', 'a': 'h1', 'b': 'tb%d' % k}, {'op': 'store', 'via': 'h1', 'h': 'tb%d' % k}]
            for k in range(a):
                ops += [{'op': 'take', 'via': 'h0', 'slot': 0, 'as': 'ua%d' % k}]
                if not stale:
                    ops += [{'op': 'unadopt', 'a': 'h0', 'b': 'ua%d' % k}]
                ops += [{'op': 'drop', 'h': 'ua%d' % k}]
            ops += [{'op': 'drop', 'h': 'h1'}]          # Y is destroyed here (it has no other handle)
            add('neighbour-destroyed a=%d b=%d %s' % (a, b, 'stale' if stale else 'unadopted'), ops + cost_all('h0', 'a'), 2)
    # (f) the object's only adopter is being destroyed (its count reached zero): from inside the adopter's destructor the adoptee, still
    #     held by the program, has no adoption left - clone and drop of the handle the dying value holds must cost nothing
    for a in (1, 2):
        ops = [{'op': 'new', 'obj': 0, 'as': 'h0'}, {'op': 'new', 'obj': 1, 'as': 'h1'}, {'op': 'extras', 'h': 'h1', 'n': 'e1'}]
        for k in range(a):
            ops += [{'op': 'clone', 'h': 'h1', 'as': 'ta%d' % k}, {'op': 'adopt', 'a': 'h0', 'b': 'ta%d' % k}, {'op': 'store', 'via': 'h0', 'h': 'ta%d' % k}]
        ops += [{'op': 'on_drop', 'obj': 0, 'do': [{'op': 'cost_clone', 'h': '@0', 'as': 'ccd'}, {'op': 'cost_drop', 'h': 'ccd'}]}, {'op': 'drop', 'h': 'h0'}]
        add('adopter-dying x%d: adoptee handled inside the adopter destructor' % a, ops + cost_all('h1', 'a'), 2)
    # vacuity witness: an object WITH a recorded adoption must be seen to trace
    ops = F.build_ops(2, ring, extras=True) + [{'op': 'cost_clone', 'h': 'h0', 'as': 'cc'}, {'op': 'cost_drop', 'h': 'cc'}]
    add('witness:adopted-object-traces', ops, 2, witness=True)
    return items


PROPS['C14'] = dict(items=items_C14, bounds={'quick': {'states': 'never adopted; adopted 1..2 times and fully unadopted (also one unadopt too many), as owner and as target; unadopted object stored inside an adopted ring; self adoption (clone / same handle) then unadopt; the only neighbour destroyed with a X->Y and b Y->X records (a,b <= 2, handles let go with or without unadopt)', 'calls': 'clone, drop of the clone, drop of the named handle (may be the last)', 'counters': 'extras e_j, w_j symbolic 64-bit', 'events': 'calls of cycle_refs / orphaned_cycle and allocation events (Global.allocate, Box, Vec growth, first insertion into a table) in the frames of the call under test; nested drops of handles stored in a destroyed value are excluded'},
                                             'thorough': {'states': 'adopted up to 3 times; neighbour-destroyed with a,b <= 3'}},
                    outside=OUTSIDE, vacuity=vac_paths('cost', 'dtor'), replay_oracles=['C14'])


# ------------------------------------------------------------------ C15 iterative and linear
def items_C15(tier, seed, P):
    items = []

    def post_path(sc, out, res):
        E = sc.E
        ex = res['extra'].setdefault('c15', dict(max_depth=0, rc_depth=0, traces=0, expansions=0, pops=0, entries=0))
        ex['max_depth'] = max(ex['max_depth'], E.max_depth)
        ex['rc_depth'] = max(ex['rc_depth'], E.max_rc_drop_depth)
        tr = E.call_counts.get('cycle_refs', 0)
        ex['traces'] = max(ex['traces'], tr)
        ex['work'] = max(ex.get('work', 0), E.work)
        ex['stmts'] = max(ex.get('stmts', 0), E.nstmts)
        if tr:
            ex['expansions_per_trace'] = max(ex.get('expansions_per_trace', 0), E.summary_counts.get('HashSet::insert', 0) / tr)
            ex['pops_per_trace'] = max(ex.get('pops_per_trace', 0), E.summary_counts.get('Vec::pop', 0) / tr)
    fams = {}
    top = 4 if tier == 'quick' else 6
    for n in range(1, top + 1):
        R = lambda i, j: (i, j, True, False)
        fams.setdefault('ring', []).append((n, [R(i, (i + 1) % n) for i in range(n)]))
        if n >= 2:
            fams.setdefault('clique', []).append((n, [R(i, j) for i in range(n) for j in range(n) if i != j]))
        if n >= 3:
            fams.setdefault('ring+chord', []).append((n, [R(i, (i + 1) % n) for i in range(n)] + [R(0, 2)]))
        fams.setdefault('ring+selfclone', []).append((n, [R(i, (i + 1) % n) for i in range(n)] + [(0, 0, True, False)]))
        # every member also carries the no-effect same-handle self adoption (a Loopback key per member in the trace result)
        fams.setdefault('ring-all-noop-self', []).append((n, [R(i, (i + 1) % n) for i in range(n)] + [(i, i, True, 'noop') for i in range(n)]))
        if n >= 2:
            # hub: object 0 adopts every other object and is adopted back (long work list)
            fams.setdefault('hub', []).append((n, [R(0, i) for i in range(1, n)] + [R(i, 0) for i in range(1, n)]))
    for fam, lst in fams.items():
        for (n, e) in lst:
            ops = F.build_ops(n, e, extras=False) + F.drop_ops([('h', i) for i in range(n)])
            items.append(dict(prop='C15', name='%s N=%d' % (fam, n), script={'ops': ops}, sym=False, oracles={'C03'}, accept_props=['C15'],
                              opts={'panics_ok': True}, layouts=[None, ('rank', tuple(range(n)), (0, 1, 2), 'obj', True)], post_path=post_path,
                              tags=[fam, n]))
    # rings whose members each recorded a second handle to their successor and gave it up again without unadopt (over-recorded edges)
    for n in range(2, top + 1):
        R = lambda i, j: (i, j, True, False)
        e = []
        for i in range(n):
            e += [R(i, (i + 1) % n), R(i, (i + 1) % n)]
        ops = F.build_ops(n, e, extras=False)
        for i in range(n - 1):
            ops += [{'op': 'take', 'via': H(i), 'slot': 1, 'as': 'sp%d' % i}, {'op': 'drop', 'h': 'sp%d' % i}]
        ops += F.drop_ops([('h', i) for i in range(n)])
        items.append(dict(prop='C15', name='ring-stale-spares N=%d' % n, script={'ops': ops}, sym=False, oracles=set(), accept_props=['C15'],
                          opts={'panics_ok': True, 'stale': True}, layouts=[None, ('rank', tuple(range(n)), (0, 1, 2), 'obj', True)], post_path=post_path,
                          tags=['ring-stale-spares', n]))
    return items


def finish_C15(tier, seed, P, native, results, scratch):
    import subprocess, re
    fam = {}
    viol = []
    for r in results:
        m = re.match(r'(.*) N=(\d+)$', r['name'])
        if not m or 'c15' not in r.get('extra', {}):
            continue
        fam.setdefault(m.group(1), {})[int(m.group(2))] = r['extra']['c15']
    table = {}
    for f, d in fam.items():
        ns = sorted(d)
        table[f] = {n: dict(rc_drop_depth=d[n]['rc_depth'], frame_depth=d[n]['max_depth'], expansions_per_trace=d[n].get('expansions_per_trace', 0),
                            pops_per_trace=d[n].get('pops_per_trace', 0), work=d[n].get('work', 0), mir_statements=d[n].get('stmts', 0)) for n in ns}
        # linear time: container work units (element moves, pushes, pops, iterator steps) and executed MIR statements per
        # (object + adoption) must not grow with N
        sizes = {}
        for (nn, ee) in [(int(r_['name'].split('N=')[1]), r_) for r_ in results if r_['name'].startswith(f + ' N=')]:
            pass
        def per_unit(n, key):
            edges = {'ring': n, 'clique': n * (n - 1), 'ring+chord': n + 1, 'ring+selfclone': n + 1, 'hub': 2 * (n - 1), 'ring-all-noop-self': 2 * n, 'ring-stale-spares': 2 * n}.get(f, n)
            return d[n].get(key, 0) / float(n + edges) / max(1, d[n].get('traces', 1))
        big = [n for n in ns if n >= 3]
        if len(big) >= 2:
            a, b = big[0], big[-1]
            for key in ('work', 'stmts'):
                ra, rb = per_unit(a, key), per_unit(b, key)
                if ra > 0 and rb > 1.5 * ra:
                    viol.append(dict(prop='C15', clause='work-grows', name='%s N=%d' % (f, b), model={}, layout=None, tags=[f],
                                     detail='%s per (object+adoption) grows with the size of the group: %s N=%d: %.1f, N=%d: %.1f (superlinear trace/teardown)'
                                     % ('container work units' if key == 'work' else 'executed MIR statements', f, a, ra, b, rb),
                                     script={'ops': []}, stack=[], trace=[], subject=None, rec_same={}, opts=None, scale_family=f))
        big = [n for n in ns if n >= 2]
        for a, b in zip(big, big[1:]):
            if d[b]['rc_depth'] > d[a]['rc_depth'] or d[b]['max_depth'] > d[a]['max_depth']:
                viol.append(dict(prop='C15', clause='depth-grows', name='%s N=%d' % (f, b), model={}, layout=None, tags=[f],
                                 detail='nesting depth grows with the size of the group: %s N=%d has Rc::drop depth %d / frame depth %d, N=%d has %d / %d'
                                 % (f, a, d[a]['rc_depth'], d[a]['max_depth'], b, d[b]['rc_depth'], d[b]['max_depth']),
                                 script={'ops': []}, stack=[], trace=[], subject=None, rec_same={}, opts=None, scale_family=f))
        for n in ns:
            if d[n].get('expansions_per_trace', 0) > 2 * n + 0.001:
                viol.append(dict(prop='C15', clause='visits-grow', name='%s N=%d' % (f, n), model={}, layout=None, tags=[f],
                                 detail='a trace of %s N=%d expands %.1f objects (more than 2 per object)' % (f, n, d[n]['expansions_per_trace']),
                                 script={'ops': []}, stack=[], trace=[], subject=None, rec_same={}, opts=None, scale_family=f))
    # native confirmation at scale: a ring of 200 000 objects on a 128 KiB stack, and time ratio N vs 2N
    scale = {}
    for n in (50000, 200000):
        try:
            pr = subprocess.run([native.bin, '--ring', str(n), '128'], capture_output=True, text=True, timeout=600)
            m = re.search(r'ring ok n=(\d+) destroyed=(\d+) ms=(\d+)', pr.stdout)
            scale[n] = dict(rc=pr.returncode, destroyed=int(m.group(2)) if m else None, ms=int(m.group(3)) if m else None)
        except subprocess.TimeoutExpired:
            scale[n] = dict(rc='timeout', destroyed=None, ms=None)
    for n in (50000,):
        try:
            pr = subprocess.run([native.bin, '--ring-noop', str(n), '128'], capture_output=True, text=True, timeout=600)
            m = re.search(r'ring ok n=(\d+) destroyed=(\d+) ms=(\d+)', pr.stdout)
            scale['noop-self ring %d' % n] = dict(rc=pr.returncode, destroyed=int(m.group(2)) if m else None, ms=int(m.group(3)) if m else None, n=n)
        except subprocess.TimeoutExpired:
            scale['noop-self ring %d' % n] = dict(rc='timeout', destroyed=None, ms=None, n=n)
    try:
        pr = subprocess.run([native.bin, '--ring-stale', '3000', '128'], capture_output=True, text=True, timeout=600)
        m = re.search(r'ring ok n=(\d+) destroyed=(\d+) ms=(\d+)', pr.stdout)
        scale['stale-spares ring 3000'] = dict(rc=pr.returncode, destroyed=int(m.group(2)) if m else None, ms=int(m.group(3)) if m else None, n=3000)
    except subprocess.TimeoutExpired:
        scale['stale-spares ring 3000'] = dict(rc='timeout', destroyed=None, ms=None, n=3000)
    hub = {}
    for n in (20000, 80000):
        best = None
        for rep in range(3):      # best of three: timing noise only ever makes a run slower
            try:
                pr = subprocess.run([native.bin, '--hub', str(n), '128'], capture_output=True, text=True, timeout=600)
                m = re.search(r'hub ok n=(\d+) destroyed=(\d+) ms=(\d+)', pr.stdout)
                cur = dict(rc=pr.returncode, destroyed=int(m.group(2)) if m else None, ms=int(m.group(3)) if m else None)
            except subprocess.TimeoutExpired:
                cur = dict(rc='timeout', destroyed=None, ms=None)
            if best is None or (cur['ms'] is not None and (best['ms'] is None or cur['ms'] < best['ms'])):
                best = cur
            if cur['ms'] is None:
                best = cur
                break
        hub[n] = best
    bad = None
    for n, s in hub.items():
        if s['rc'] != 0 or s['destroyed'] != n:
            bad = 'hub of %d objects on a 128 KiB stack: rc=%s destroyed=%s' % (n, s['rc'], s['destroyed'])
    if not bad and hub[20000]['ms'] and hub[80000]['ms'] and hub[80000]['ms'] > 1000 and hub[80000]['ms'] > 9.0 * max(hub[20000]['ms'], 40):
        bad = 'time is not linear: hub of 20000 objects %d ms, 80000 objects %d ms' % (hub[20000]['ms'], hub[80000]['ms'])
    for n, s in scale.items():
        if s['rc'] != 0 or s['destroyed'] != s.get('n', n):
            bad = 'ring of %s objects on a 128 KiB stack: rc=%s destroyed=%s' % (n, s['rc'], s['destroyed'])
    # sizes differ by a factor of 4: linear cost gives about 4-6x (hash table growth, cache effects), quadratic 16x
    if not bad and scale[50000]['ms'] and scale[200000]['ms'] and scale[200000]['ms'] > 1000 and scale[200000]['ms'] > 9.0 * max(scale[50000]['ms'], 40):
        bad = 'time is not linear: %d ms for 50000 objects, %d ms for 200000' % (scale[50000]['ms'], scale[200000]['ms'])
    if bad:
        viol.append(dict(prop='C15', clause='scale', name='native ring at scale', model={}, layout=None, tags=[], detail=bad, script={'ops': []}, stack=[], trace=[],
                         subject=None, rec_same={}, opts=None, confirmed_by='native scale run: ' + bad, concrete={'ops': [{'op': 'note'}]}))
    for v in viol:
        if v['clause'] != 'scale':
            # a growth measured by the solver-side exploration is confirmed by the native scale run
            v['confirmed_by'] = ('native scale run: ' + bad) if bad else None
    return dict(violations=[v for v in viol], depth_table=table, native_scale=scale, native_hub_scale=hub)


PROPS['C15'] = dict(items=items_C15, finish=finish_C15,
                    bounds={'quick': {'solver_side': 'rings, cliques, rings with a chord, rings with a self adoption of N = 1..4: maximum nesting depth of Rc::drop frames and of interpreter frames must not grow with N; objects expanded per trace <= 2N', 'native_side': 'ring of 50 000 and 200 000 objects and hub of 20 000 and 80 000 objects collected on a thread with a 128 KiB stack; all destroyed; time ratio for the 4x larger group must stay below 9 (linear about 4-6, quadratic 16; best of three runs)'},
                            'thorough': {'solver_side': 'N = 1..6'}},
                    outside=OUTSIDE + ['sizes beyond N=4 (6) are covered only by the native scale run, which is a confirmation, not a solver verdict'],
                    vacuity=vac_paths(), replay_oracles=['C15'])


# ------------------------------------------------------------------ adopt / unadopt histories (pair multiplicities)
def history_items(prop, tier, seed, oracles, opts=None, accept=None, relabel=False, obs=False):
    """owner 0 records m adoptions of target 1 (m handles stored), then u of them are removed again in one of three
    ways; target optionally sits in a ring with object 2, or owner and target form a ring; then a non-last handle of
    every object is dropped (trace), then the named handles in every order"""
    items = []
    maxm = 2 if tier == 'quick' else 3
    ctxs = ['pair', 'target-in-ring', 'owner-target-ring', 'owner-target-ring-late', 'self', 'self+loopback']
    if prop not in ('C01', 'C03'):
        # upstream's no-effect same-handle adoption recorded m times and taken back u times
        for m in range(1, maxm + 1):
            for u in range(0, m + 2):
                ops = [{'op': 'new', 'obj': 0, 'as': H(0)}, {'op': 'extras', 'h': H(0), 'n': 'e0'}]
                ops += [{'op': 'adopt', 'a': H(0), 'b': H(0)}] * m + [{'op': 'unadopt', 'a': H(0), 'b': H(0)}] * u
                ops += [{'op': 'clone', 'h': H(0), 'as': 'c0'}, {'op': 'drop', 'h': 'c0'}, {'op': 'drop', 'h': H(0)}]
                items.append(dict(prop=prop, name='hist loopback-only m=%d u=%d' % (m, u), script={'ops': [dict(o) for o in ops]}, sym=True, oracles=set(oracles),
                                  opts=dict(opts or {}), layouts=[None]))
    for ctx in ctxs:
        n = {'pair': 2, 'target-in-ring': 3, 'owner-target-ring': 2, 'owner-target-ring-late': 2, 'self': 1, 'self+loopback': 1}[ctx]
        tgt = 0 if ctx.startswith('self') else 1
        for m in range(1, maxm + 1):
            for u in range(0, m + 2):
                for mode in ('remove', 'unadopt-only'):
                    if u == 0 and mode != 'remove':
                        continue
                    if u == m + 1 and mode == 'unadopt-only':
                        continue
                    ops = [{'op': 'new', 'obj': i, 'as': H(i)} for i in range(n)]
                    ops += [{'op': 'extras', 'h': H(i), 'n': 'e%d' % i} for i in range(n)]
                    if ctx == 'target-in-ring':
                        ops += [{'op': 'clone', 'h': H(2), 'as': 'r0'}, {'op': 'adopt', 'a': H(1), 'b': 'r0'}, {'op': 'store', 'via': H(1), 'h': 'r0'},
                                {'op': 'clone', 'h': H(1), 'as': 'r1'}, {'op': 'adopt', 'a': H(2), 'b': 'r1'}, {'op': 'store', 'via': H(2), 'h': 'r1'}]
                    if ctx == 'owner-target-ring':
                        ops += [{'op': 'clone', 'h': H(0), 'as': 'r0'}, {'op': 'adopt', 'a': H(1), 'b': 'r0'}, {'op': 'store', 'via': H(1), 'h': 'r0'}]
                    if ctx == 'self+loopback':
                        # upstream's no-effect same-handle adoption is outstanding while clone self adoptions come and go
                        if prop in ('C01', 'C03'):
                            continue
                        ops += [{'op': 'adopt', 'a': H(0), 'b': H(0)}]
                    base_slots = 1 if ctx == 'target-in-ring' and tgt == 0 else 0
                    for k in range(m):
                        ops += [{'op': 'clone', 'h': H(tgt), 'as': 'a%d' % k}, {'op': 'adopt', 'a': H(0), 'b': 'a%d' % k}, {'op': 'store', 'via': H(0), 'h': 'a%d' % k}]
                    if ctx == 'owner-target-ring-late':
                        # the reverse adoption (target adopts owner) is recorded AFTER the owner's adoptions
                        ops += [{'op': 'clone', 'h': H(0), 'as': 'r0'}, {'op': 'adopt', 'a': H(1), 'b': 'r0'}, {'op': 'store', 'via': H(1), 'h': 'r0'}]
                    for k in range(u):
                        if k < m and mode == 'remove':
                            ops += [{'op': 'take', 'via': H(0), 'slot': 0, 'as': 'x%d' % k}, {'op': 'unadopt', 'a': H(0), 'b': 'x%d' % k}, {'op': 'drop', 'h': 'x%d' % k}]
                        else:
                            # unadopt without giving the handle up (or one unadopt too many)
                            ops += [{'op': 'clone', 'h': H(tgt), 'as': 'y%d' % k}, {'op': 'unadopt', 'a': H(0), 'b': 'y%d' % k}, {'op': 'drop', 'h': 'y%d' % k}]
                    if obs:
                        for i in range(n):
                            ops.append({'op': 'downgrade', 'h': H(i), 'as': 'ow%d' % i})
                    # a non-last handle of each object is dropped: runs the trace while everything is still held
                    for i in range(n):
                        ops += [{'op': 'clone', 'h': H(i), 'as': 'c%d' % i}, {'op': 'drop', 'h': 'c%d' % i}]
                    for seq in F.drop_sequences(n, n):
                        o2 = list(ops)
                        for (kk, i) in seq:
                            o2 += F.drop_ops([(kk, i)])
                            if obs:
                                for j in range(n):
                                    o2 += [{'op': 'upgrade', 'w': 'ow%d' % j}, {'op': 'w_strong_count', 'w': 'ow%d' % j}]
                        it = dict(prop=prop, name='hist %s m=%d u=%d %s drops=%s' % (ctx, m, u, mode, ''.join('%s%d' % q for q in seq)), script={'ops': o2},
                                  sym=True, oracles=set(oracles), opts=dict(opts or {}), layouts=std_layouts(n, tier, seed)[:2 if tier == 'quick' else 4])
                        if accept:
                            it['accept_props'] = accept
                            it['relabel'] = relabel
                        items.append(it)
    # the handle the owner stores is the target's ONLY strong handle (the program let go of its own); the program takes it back
    # (take + unadopt, or take without unadopt is not used here) and keeps it: the target is then held by the program alone
    for ctx in ('pair', 'owner-in-ring', 'owner-target-ring'):
        n = 3 if ctx == 'owner-in-ring' else 2
        for m in (1, 2):
            ops = [{'op': 'new', 'obj': i, 'as': H(i)} for i in range(n)]
            ops += [{'op': 'extras', 'h': H(i), 'n': 'e%d' % i} for i in range(n) if i != 1]
            if ctx == 'owner-in-ring':
                ops += [{'op': 'clone', 'h': H(2), 'as': 'r0'}, {'op': 'adopt', 'a': H(0), 'b': 'r0'}, {'op': 'store', 'via': H(0), 'h': 'r0'},
                        {'op': 'clone', 'h': H(0), 'as': 'r1'}, {'op': 'adopt', 'a': H(2), 'b': 'r1'}, {'op': 'store', 'via': H(2), 'h': 'r1'}]
            if ctx == 'owner-target-ring':
                ops += [{'op': 'clone', 'h': H(0), 'as': 'r0'}, {'op': 'adopt', 'a': H(1), 'b': 'r0'}, {'op': 'store', 'via': H(1), 'h': 'r0'}]
            first = 1 if ctx == 'owner-in-ring' else 0
            for k in range(m - 1):
                ops += [{'op': 'clone', 'h': H(1), 'as': 'a%d' % k}, {'op': 'adopt', 'a': H(0), 'b': 'a%d' % k}, {'op': 'store', 'via': H(0), 'h': 'a%d' % k}]
            # the program's own handle to the target is moved into the owner: afterwards the owner's slots hold every handle to it
            ops += [{'op': 'adopt', 'a': H(0), 'b': H(1)}, {'op': 'store', 'via': H(0), 'h': H(1)}]
            for k in range(m):
                ops += [{'op': 'take', 'via': H(0), 'slot': first, 'as': 'x%d' % k}, {'op': 'unadopt', 'a': H(0), 'b': 'x%d' % k}]
            for k in range(1, m):
                ops += [{'op': 'drop', 'h': 'x%d' % k}]
            if obs:
                for i in range(n):
                    ops.append({'op': 'downgrade', 'h': ('x0' if i == 1 else H(i)), 'as': 'ow%d' % i})
            others = [i for i in range(n) if i != 1]
            for perm in itertools.permutations(others):
                o2 = list(ops)
                for i in perm:
                    o2 += [{'op': 'clone', 'h': H(i), 'as': 'c%d' % i}, {'op': 'drop', 'h': 'c%d' % i}, {'op': 'drop', 'h': H(i)}]
                    o2 += [{'op': 'strong_count', 'h': 'x0'}, {'op': 'deref', 'h': 'x0'}]
                o2 += [{'op': 'drop', 'h': 'x0'}]
                it = dict(prop=prop, name='hist sole-handle %s m=%d kept drops=%s' % (ctx, m, ''.join(str(i) for i in perm)), script={'ops': o2},
                          sym=True, oracles=set(oracles), opts=dict(opts or {}), layouts=std_layouts(n, tier, seed)[:2])
                if accept:
                    it['accept_props'] = accept
                    it['relabel'] = relabel
                items.append(it)
    return items


def mult_items(prop, tier, seed, oracles, opts=None, wextras=False):
    """N=2 and N=3 shapes with parallel (doubled) recorded edges: part of the quick tier"""
    items = []
    R = lambda i, j: (i, j, True, False)
    U = lambda i, j: (i, j, False, False)
    sh = [(2, [R(0, 1), R(0, 1)], 'N2[0=>1 x2]'), (2, [R(0, 1), R(0, 1), R(1, 0)], 'N2[0=>1 x2, 1=>0]'), (2, [R(0, 1), R(0, 1), R(1, 0), R(1, 0)], 'N2[0<=>1 x2]'),
          (1, [(0, 0, True, False), (0, 0, True, False)], 'N1[0=>0 x2]'), (2, [R(0, 1), U(0, 1), R(1, 0)], 'N2[0=>1 +unrecorded, 1=>0]'),
          (3, [R(0, 1), R(0, 1), R(1, 2), R(2, 1)], 'N3[tail 0=>1 x2 into ring 1<=>2]'), (3, [R(0, 1), R(1, 2), R(1, 2), R(2, 0)], 'N3[ring with doubled edge]'),
          (3, [R(0, 1), R(0, 1), R(1, 0), R(1, 2)], 'N3[ring2 doubled + tail]'),
          (3, [R(0, 2), R(0, 2), R(1, 2), R(2, 0), R(2, 1)], 'N3[two adopters of one target with unequal multiplicity]')]
    for (n, e, nm) in sh:
        base = F.build_ops(n, e, extras=True, wextras=wextras)
        for seq in F.drop_sequences(n, n):
            items.append(dict(prop=prop, name='%s drops=%s' % (nm, ''.join('%s%d' % q for q in seq)), script={'ops': list(base) + F.drop_ops(seq)}, sym=True,
                              oracles=set(oracles), opts=dict(opts or {}), layouts=std_layouts(n, tier, seed)[:3 if tier == 'quick' else 6]))
    # the same graphs built in the other order: every adoption is recorded first, through the program's own handle to the target,
    # and the handles are cloned and stored in their owners only afterwards (each adopt still adds exactly one record)
    for (n, e, nm) in [(2, [R(0, 1)], 'N2[0=>1]'), (2, [R(0, 1), R(1, 0)], 'N2[0<=>1]')] + [x for x in sh if all(i != j and r for (i, j, r, q) in x[1])][:4 if tier == 'quick' else None]:
        base = [{'op': 'new', 'obj': i, 'as': H(i)} for i in range(n)] + [{'op': 'extras', 'h': H(i), 'n': 'e%d' % i} for i in range(n)]
        if wextras:
            base += [{'op': 'wextras', 'h': H(i), 'n': 'w%d' % i} for i in range(n)]
        base += [{'op': 'adopt', 'a': H(i), 'b': H(j)} for (i, j, r, q) in e]
        for t, (i, j, r, q) in enumerate(e):
            base += [{'op': 'clone', 'h': H(j), 'as': 'af%d' % t}, {'op': 'store', 'via': H(i), 'h': 'af%d' % t}]
        for seq in F.drop_sequences(n, n)[:None if n <= 2 else 3]:
            items.append(dict(prop=prop, name='%s adopt-first drops=%s' % (nm, ''.join('%s%d' % q for q in seq)), script={'ops': list(base) + F.drop_ops(seq)}, sym=True,
                              oracles=set(oracles), opts=dict(opts or {}), layouts=std_layouts(n, tier, seed)[:2]))
    return items


# ------------------------------------------------------------------ C09 layout independence (product check over path summaries)
def _c09_collect(sc, out, kind):
    import z3
    segs = []
    cur = None
    for t in sc.trace:
        if t[0] == 'op':
            cur = [t[1], [], []]
            segs.append(cur)
        elif cur is not None:
            if t[0] == 'dtor':
                cur[1].append(t[1])
            elif t[0] == 'ret':
                cur[2].append((t[1], str(t[2])))
    summ = tuple((s[0], tuple(sorted(s[1])), tuple(s[2])) for s in segs)
    pc = z3.And(*sc.E.pc) if sc.E.pc else z3.BoolVal(True)
    return (pc, summ, kind if kind in ('ok', 'panic', 'abort') else 'stopped:' + kind, dict(sc.symvars))


def _c09_post_item(item, res):
    import z3
    lays = list(res['summaries_by_layout'].items())
    if len(lays) < 2:
        return
    base_name, base = lays[0]
    s = z3.Solver()
    nq = 0
    for name, paths in lays[1:]:
        for (pc1, s1, k1, sv1) in base:
            for (pc2, s2, k2, sv2) in paths:
                if s1 == s2 and k1 == k2:
                    continue
                s.push()
                s.add(pc1, pc2)
                nq += 1
                r = s.check()
                if r == z3.sat:
                    m = s.model()
                    vals = {n: m.eval(v, model_completion=True).as_long() for n, v in {**sv1, **sv2}.items()}
                    # first differing operation
                    diff = next((a for a, b in zip(s1, s2) if a != b), None)
                    res['violations'].append(dict(prop='C09', clause='layout-dependent', model=vals, script=item['script'], layout=None, name=item['name'],
                                                  detail='the same calls give different outcomes under layouts %s and %s: op %s destroys %s / observes %s under the first'
                                                  % (base_name, name, diff[0] if diff else '?', list(diff[1]) if diff else k1, list(diff[2])[:3] if diff else ''),
                                                  decisions=[], op_index=diff[0] if diff else -1, stack=[], trace=[], tags=[], subject=None, rec_same={}, opts=item.get('opts'),
                                                  layouts=[base_name, name]))
                    res['outcomes']['violation'] = res['outcomes'].get('violation', 0) + 1
                    s.pop()
                    res['queries'] += nq
                    return
                s.pop()
    res['queries'] += nq
    res['oracle_queries'] += nq


def worklist_shapes5(tier, seed):
    R = lambda i, j: (i, j, True, False)
    out = [([R(0, 1), R(0, 2), R(2, 4), R(2, 3), R(3, 4), R(4, 0), R(1, 0)], 'N5[shortcut-diamond under a common adopter]'),
           ([R(0, 1), R(0, 2), R(1, 3), R(2, 3), R(3, 4), R(4, 0), R(1, 2)], 'N5[diamond+cross edge, tail closes]')]
    rnd = random.Random(9100 + seed)
    want = 2 if tier == 'quick' else 10
    tries = 0
    while len(out) < 2 + want and tries < 1000:
        tries += 1
        m = rnd.randint(6, 8)
        pairs = [(i, j) for i in range(5) for j in range(5) if i != j]
        e = [R(i, j) for (i, j) in rnd.sample(pairs, m)]
        # strongly connected (every member reaches every other): the whole graph is one group
        adj = {i: [j for (a, j, _, _) in e if a == i] for i in range(5)}
        def reach(s):
            seen = {s}
            st = [s]
            while st:
                x = st.pop()
                for y in adj[x]:
                    if y not in seen:
                        seen.add(y)
                        st.append(y)
            return seen
        if all(len(reach(s)) == 5 for s in range(5)):
            out.append((e, 'N5[seeded %s]' % ' '.join('%d>%d' % (i, j) for (i, j, _, _) in e)))
    return out


def items_C09(tier, seed, P):
    items = []
    shapes = []
    for n in (1, 2):
        for e in F.shapes(n, max_mult=1 if tier == 'quick' else 2, recorded_only=True, allow_same=False):
            shapes.append((n, e, F.describe(n, e)))
    for n in ((3,) if tier == 'quick' else (3, 4)):
        for nm, e in F.named_shapes(n).items():
            if 'same' not in nm:
                shapes.append((n, e, nm))
    if tier != 'quick':
        for e in F.shapes(3, max_mult=1, max_edges=4, recorded_only=True, allow_same=False, self_edges=False):
            shapes.append((3, e, F.describe(3, e)))
    R = lambda i, j: (i, j, True, False)
    shapes += [(2, [R(0, 1), R(0, 1), R(1, 0)], 'N2[0=>1 x2, 1=>0]'), (3, [R(0, 1), R(0, 1), R(1, 2), R(2, 1)], 'N3[tail x2 into ring]')]
    # members that also carry a no-effect same-handle self adoption: a second (Loopback) key per node in every trace result
    shapes += [(2, [R(0, 1), R(1, 0), (0, 0, True, 'noop')], 'ring2+noop-self@0'), (2, [R(0, 1), (1, 1, True, 'noop')], 'owner-target+noop-self@1'),
               (3, F.named_shapes(3)['ring3'] + [(1, 1, True, 'noop')], 'ring3+noop-self@1'),
               # an outside owner that carries the no-effect record and dies first (its purge of the members it adopted must be complete)
               (2, [(0, 0, True, 'noop'), R(0, 1), (1, 1, True, False)], 'noop-self owner of a selfclone'),
               (3, [(0, 0, True, 'noop'), R(0, 1), R(0, 2), R(1, 2), R(2, 1)], 'noop-self hub of ring2')]
    for (n, e, nm) in shapes:
        base = F.build_ops(n, e, extras=True)
        for i in range(n):
            base.append({'op': 'downgrade', 'h': H(i), 'as': 'ow%d' % i})
        lays = std_layouts(n, tier, seed)[:4 if tier == 'quick' else 10]
        if 'noop' in nm:
            lays = lays + [('rank', tuple(range(n)), (2, 0, 1), 'kind', False), ('rank', tuple(range(n)), (1, 2, 0), 'obj', False)]
        if (n <= 2 and len(e) <= 2) or (tier != 'quick' and len(e) <= 3):
            lays = lays + [('fork',)]
        for seq in F.drop_sequences(n, n):
            ops = list(base)
            for (k, i) in seq:
                ops += F.drop_ops([(k, i)])
                for j in range(n):
                    ops += [{'op': 'w_strong_count', 'w': 'ow%d' % j}, {'op': 'w_weak_count', 'w': 'ow%d' % j}]
            items.append(dict(prop='C09', name='%s drops=%s' % (nm, ''.join('%s%d' % q for q in seq)), script={'ops': ops}, sym=True, oracles=set(),
                              opts={'panics_ok': True, 'abort_ok': True}, layouts=lays, collect=_c09_collect, post_item=_c09_post_item, accept_props=['C09'],
                              max_paths=20000))
    # N=5 work-list shapes: a member reached over several routes of different length while other members still wait on the work
    # list (transitive triangle + sibling branch under a common adopter), and seeded strongly connected N=5 graphs. The drop
    # orders are the five that end with a different object each; many table orders.
    for (e, nm) in worklist_shapes5(tier, seed):
        base = F.build_ops(5, e, extras=True)
        for i in range(5):
            base.append({'op': 'downgrade', 'h': H(i), 'as': 'ow%d' % i})
        rl = random.Random('c09-n5|%s|%d' % (nm, seed))
        lays = [None] + [('rank', tuple(rl.sample(range(5), 5)), tuple(rl.sample(range(3), 3)), rl.choice(['obj', 'kind']), rl.random() < 0.5) for _ in range(14 if tier == 'quick' else 60)]
        for last in range(5):
            seq = [('h', i) for i in range(5) if i != last] + [('h', last)]
            ops = list(base)
            for (k, i) in seq:
                ops += F.drop_ops([(k, i)])
                for j in range(5):
                    ops += [{'op': 'w_strong_count', 'w': 'ow%d' % j}]
            items.append(dict(prop='C09', name='%s last=%d' % (nm, last), script={'ops': ops}, sym=True, oracles=set(),
                              opts={'panics_ok': True, 'abort_ok': True}, layouts=lays, collect=_c09_collect, post_item=_c09_post_item, accept_props=['C09'],
                              max_paths=20000))
    # every stored handle recorded, but a handle is given up without `unadopt` (allowed): pair with unequal multiplicities next to a ring
    R2 = lambda i, j: (i, j, True, False)
    for (e, nm, owner, slot) in [([R2(0, 1), R2(0, 1), R2(1, 0), R2(1, 2), R2(2, 1)], 'T=>X x2, X=>T, X<=>Y; X gives up its handle to T', 1, 0),
                                ([R2(0, 1), R2(1, 0), R2(1, 0), R2(1, 2), R2(2, 1)], 'T=>X, X=>T x2, X<=>Y; T gives up its handle to X', 0, 0)]:
        base = F.build_ops(3, e, extras=True)
        for i in range(3):
            base.append({'op': 'downgrade', 'h': H(i), 'as': 'ow%d' % i})
        base += [{'op': 'take', 'via': H(owner), 'slot': slot, 'as': 'st'}, {'op': 'drop', 'h': 'st'}]
        for seq in F.drop_sequences(3, 3):
            ops = list(base)
            for (kk, i) in seq:
                ops += F.drop_ops([(kk, i)])
                for j in range(3):
                    ops += [{'op': 'w_strong_count', 'w': 'ow%d' % j}]
            items.append(dict(prop='C09', name='%s drops=%s' % (nm, ''.join('%s%d' % q for q in seq)), script={'ops': ops}, sym=True, oracles=set(),
                              opts={'panics_ok': True, 'abort_ok': True, 'stale': True}, tags=['stale'], layouts=std_layouts(3, tier, seed)[:4 if tier == 'quick' else 10] + [('rank', (0, 1, 2), (1, 0, 2), 'kind', False)],
                              collect=_c09_collect, post_item=_c09_post_item, accept_props=['C09'], max_paths=20000))
    # histories in which one destructor panics (caught by the caller): what the interrupted operation destroyed must not depend on the layout either
    for (n, e, nm) in [s for s in shapes if s[2] in ('N2[0=>1 1=>0]', 'ring3', 'clique3', 'ring3+chord')]:
        for k in range(n):
            base = F.build_ops(n, e, extras=True) + [{'op': 'on_drop_panic', 'obj': k}]
            for i in range(n):
                base.append({'op': 'downgrade', 'h': H(i), 'as': 'ow%d' % i})
            for seq in F.drop_sequences(n, n)[:2]:
                ops = list(base)
                for (kk, i) in seq:
                    ops.append({'op': 'catch', 'do': F.drop_ops([(kk, i)])})
                    for j in range(n):
                        ops += [{'op': 'w_strong_count', 'w': 'ow%d' % j}]
                items.append(dict(prop='C09', name='%s panic@%d drops=%s' % (nm, k, ''.join('%s%d' % q for q in seq)), script={'ops': ops}, sym=True, oracles=set(),
                                  opts={'panics_ok': True, 'abort_ok': True}, layouts=std_layouts(n, tier, seed)[:4 if tier == 'quick' else 10] + ([('fork',)] if n <= 2 else []),
                                  collect=_c09_collect, post_item=_c09_post_item, accept_props=['C09'], max_paths=20000))
    return items


def replay_C09(P, native, rep, scratch):
    import runcheck, scripts as scr
    cs = runcheck.concretise(rep['script'], rep['model'])
    seen = {}
    for seed in range(0, 48):
        try:
            res, rc, err = native.run([('replay', cs)], seed=seed, timeout=60)
        except Exception:
            continue
        nt = scr.normalise(res.get('replay', {}).get('trace', []))
        key = repr(nt) + '|rc=%s' % rc
        seen.setdefault(key, seed)
        if len(seen) >= 2:
            a, b = list(seen.values())[:2]
            return True, 'native: allocation patterns (seeds) %d and %d give different destroyed sets / counts for the same calls' % (a, b), cs
    return False, 'native: 48 perturbed allocation patterns all gave the same outcome', cs


PROPS['C09'] = dict(items=items_C09, custom_replay=replay_C09,
                    bounds={'quick': {'programs': 'every stored handle recorded: all fully recorded shapes N<=2, named N=3 shapes, two shapes with doubled edges; every order of dropping the named handles; counts observed through Weak after every operation', 'layouts': 'insertion order, reverse rank, 2 seeded rank orders, and for N<=2 every per-table order (ForkLayout)', 'check': 'for every pair of paths from two layouts whose path conditions are jointly satisfiable (z3), per-operation destroyed sets and observed counts are equal', 'counters': 'symbolic extras'},
                            'thorough': {'programs': 'held<=2, N=3 <=4 edges, named N=4', 'layouts': '10 rank orders + ForkLayout on shapes with <=4 edges'}},
                    outside=OUTSIDE, vacuity=lambda results, extra: None if sum(r.get('oracle_queries', 0) + r.get('paths', 0) for r in results) > 0 else 'nothing compared',
                    replay_oracles=[])


# ------------------------------------------------------------------ C07 differential against the std reference model
def _c07_post_path(sc, out, res):
    """run the std model under this path's condition; every std branch that is jointly satisfiable must give the same trace"""
    import z3
    from stdmodel import Std
    from values import is_sym, bv
    if out[0] not in ('ok', 'violation', 'ub', 'panic', 'abort'):
        return
    E = sc.E
    impl = [(i, t) for i, t in enumerate(sc.trace) if t[0] in ('dtor', 'ret', 'tclone', 'tcmp')]
    pending = [[]]
    nstd = 0
    while pending:
        dec = pending.pop()
        m = Std(sc.script, lambda c: E.check(c), dec)
        m.symvars = dict(sc.symvars)
        try:
            m.run()
        except ValueError as e:
            res['error'] = str(e)
            return
        pending.extend(m.alternatives)
        nstd += 1
        asm = z3.And(*m.asm) if m.asm else z3.BoolVal(True)
        if not E.check(asm):
            continue
        # compare event by event
        st = m.trace
        mismatch = None
        extra = None
        if out[0] != 'ok':
            mismatch = 'the implementation ends in %s (%s) where std completes the program' % (out[0], str(out[1])[:120])
        else:
            if len(st) != len(impl):
                mismatch = 'different number of observable events: implementation %d, std %d' % (len(impl), len(st))
            for (i, a), b in zip(impl, st):
                if mismatch:
                    break
                if a[0] != b[0] or (a[0] != 'ret' and list(a[1:]) != list(b[1:])) or (a[0] == 'ret' and a[1] != b[1]):
                    mismatch = 'event %r where std has %r' % (a, b)
                    break
                if a[0] == 'ret':
                    va = sc.rawvals.get(i, a[2])
                    vb = b[2]
                    if is_sym(va) or is_sym(vb):
                        neq = bv(va) != bv(vb)
                        if E.check(z3.And(asm, neq)):
                            mismatch = '%s returns %s where std returns %s' % (a[1], va, vb)
                            extra = z3.And(asm, neq)
                    elif va != vb:
                        mismatch = '%s returns %r where std returns %r' % (a[1], va, vb)
        if mismatch:
            _viol(res, sc, 'C07', 'differs-from-std', mismatch, extra if extra is not None else asm)
            return
    res['extra']['std_branches'] = res['extra'].get('std_branches', 0) + nstd
    res['oracle_queries'] += nstd


def items_C07(tier, seed, P):
    items = []
    N = lambda i, h: {'op': 'new', 'obj': i, 'as': h}
    # base states (no adoption anywhere)
    bases = {
        'one': [N(0, 'a'), {'op': 'extras', 'h': 'a', 'n': 'e0'}, {'op': 'wextras', 'h': 'a', 'n': 'w0'}, {'op': 'downgrade', 'h': 'a', 'as': 'wa'}],
        'owner-holds-target': [N(0, 'a'), N(1, 'b'), {'op': 'extras', 'h': 'a', 'n': 'e0'}, {'op': 'extras', 'h': 'b', 'n': 'e1'},
                               {'op': 'clone', 'h': 'b', 'as': 't0'}, {'op': 'store', 'via': 'a', 'h': 't0'},
                               {'op': 'downgrade', 'h': 'a', 'as': 'tw'}, {'op': 'store_weak', 'via': 'b', 'w': 'tw'}, {'op': 'downgrade', 'h': 'a', 'as': 'wa'}],
        'leaking-cycle': [N(0, 'a'), N(1, 'b'), {'op': 'wextras', 'h': 'a', 'n': 'w0'},
                          {'op': 'clone', 'h': 'b', 'as': 't0'}, {'op': 'store', 'via': 'a', 'h': 't0'},
                          {'op': 'clone', 'h': 'a', 'as': 't1'}, {'op': 'store', 'via': 'b', 'h': 't1'}, {'op': 'downgrade', 'h': 'a', 'as': 'wa'}],
        'unique': [N(0, 'a'), {'op': 'downgrade', 'h': 'a', 'as': 'wa'}, {'op': 'wdrop', 'w': 'wa'}, {'op': 'weak_new', 'as': 'wa'}],
        # constructed through From<T> / From<Box<T>>
        'from-value': [{'op': 'new_from', 'obj': 0, 'as': 'a'}, {'op': 'extras', 'h': 'a', 'n': 'e0'}, {'op': 'downgrade', 'h': 'a', 'as': 'wa'}],
        'from-box': [{'op': 'new_from_box', 'obj': 0, 'as': 'a'}, {'op': 'wextras', 'h': 'a', 'n': 'w0'}, {'op': 'downgrade', 'h': 'a', 'as': 'wa'}],
        # the value holds a Weak to itself and its destructor inspects it (std: already dead from the value's point of view)
        'self-weak-in-dtor': [N(0, 'a'), {'op': 'extras', 'h': 'a', 'n': 'e0'}, {'op': 'wextras', 'h': 'a', 'n': 'w0'},
                              {'op': 'downgrade', 'h': 'a', 'as': 'sw'}, {'op': 'store_weak', 'via': 'a', 'w': 'sw'},
                              {'op': 'on_drop', 'obj': 0, 'do': [{'op': 'upgrade', 'w': '^0'}, {'op': 'w_strong_count', 'w': '^0'}, {'op': 'w_weak_count', 'w': '^0'}]},
                              {'op': 'downgrade', 'h': 'a', 'as': 'wa'}],
        # a child whose destructor looks at its (dying) parent through a Weak
        'child-observes-parent': [N(0, 'a'), N(1, 'b'), {'op': 'extras', 'h': 'a', 'n': 'e0'},
                                  {'op': 'downgrade', 'h': 'a', 'as': 'pw'}, {'op': 'store_weak', 'via': 'b', 'w': 'pw'},
                                  {'op': 'on_drop', 'obj': 1, 'do': [{'op': 'upgrade', 'w': '^0'}, {'op': 'w_strong_count', 'w': '^0'}, {'op': 'w_weak_count', 'w': '^0'}]},
                                  {'op': 'store', 'via': 'a', 'h': 'b'}, {'op': 'downgrade', 'h': 'a', 'as': 'wa'}],
    }
    obs = [{'op': 'strong_count', 'h': 'a'}, {'op': 'weak_count', 'h': 'a'}]
    wobs = [{'op': 'w_strong_count', 'w': 'wa'}, {'op': 'w_weak_count', 'w': 'wa'}]
    # calls on handle `a` (still held afterwards unless noted); each returns (ops, a_still_held)
    calls = {
        'clone': ([{'op': 'clone', 'h': 'a', 'as': 'c'}], True),
        'clone-drop': ([{'op': 'clone', 'h': 'a', 'as': 'c'}, {'op': 'drop', 'h': 'c'}], True),
        'drop': ([{'op': 'drop', 'h': 'a'}], False),
        'drop-via-raw': ([{'op': 'drop_via_raw', 'h': 'a'}], False),
        'drop_extra': ([{'op': 'drop_extra', 'obj': 0}], True),
        'downgrade': ([{'op': 'downgrade', 'h': 'a', 'as': 'w2'}], True),
        'upgrade': ([{'op': 'upgrade', 'w': 'wa', 'as': 'u'}], True),
        'upgrade-drop': ([{'op': 'upgrade', 'w': 'wa'}], True),
        'wclone-wdrop': ([{'op': 'wclone', 'w': 'wa', 'as': 'w3'}, {'op': 'wdrop', 'w': 'w3'}], True),
        'try_unwrap': ([{'op': 'try_unwrap', 'h': 'a', 'as': 'a'}], None),
        'get_mut': ([{'op': 'get_mut', 'h': 'a'}], True),
        'make_mut': ([{'op': 'make_mut', 'h': 'a'}], True),
        'raw-roundtrip': ([{'op': 'into_raw', 'h': 'a', 'as': 'r'}, {'op': 'from_raw', 'r': 'r', 'as': 'a'}], True),
        'inc-dec': ([{'op': 'as_ptr', 'h': 'a', 'as': 'p'}, {'op': 'inc_strong', 'r': 'p'}, {'op': 'strong_count', 'h': 'a'}, {'op': 'dec_strong', 'r': 'p'}], True),
        'weak-raw': ([{'op': 'w_into_raw', 'w': 'wa', 'as': 'wr'}, {'op': 'w_from_raw', 'r': 'wr', 'as': 'wa'}], True),
        'ptr_eq': ([{'op': 'clone', 'h': 'a', 'as': 'pe'}, {'op': 'ptr_eq', 'a': 'a', 'b': 'pe'}, {'op': 'drop', 'h': 'pe'}], True),
        'deref': ([{'op': 'deref', 'h': 'a'}], True),
        'compare': ([{'op': 'clone', 'h': 'a', 'as': 'pe'}, {'op': 'eq', 'a': 'a', 'b': 'pe'}, {'op': 'ne', 'a': 'a', 'b': 'pe'}, {'op': 'le', 'a': 'a', 'b': 'pe'},
                     {'op': 'gt', 'a': 'a', 'b': 'pe'}, {'op': 'cmp', 'a': 'a', 'b': 'pe'}, {'op': 'partial_cmp', 'a': 'pe', 'b': 'a'}, {'op': 'drop', 'h': 'pe'}], True),
        # hashing and formatting: what reaches the Hasher / Formatter (T::hash, T's Display / Debug, the value's address, "(Weak)")
        'hash-fmt': ([{'op': 'hash', 'h': 'a'}, {'op': 'fmt_display', 'h': 'a'}, {'op': 'fmt_debug', 'h': 'a'}, {'op': 'fmt_pointer', 'h': 'a'}, {'op': 'wfmt_debug', 'w': 'wa'}], True),
    }
    L = 2 if tier == 'quick' else 3
    names = sorted(calls)
    for bn, base in bases.items():
        seqs = [(c,) for c in names] + [(c1, c2) for c1 in names for c2 in names]
        rnd = random.Random(99 + seed)
        seqs += [tuple(rnd.choice(names) for _ in range(3)) for _ in range(150 if L < 3 else 600)]
        if L >= 3:
            seqs += [tuple(rnd.choice(names) for _ in range(4)) for _ in range(300)]
        for seq in seqs:
            ops = list(base)
            held = True
            ok = True
            used = set()
            for ci, c in enumerate(seq):
                co, still = calls[c]
                if not held or ('drop_extra' == c and bn in ('leaking-cycle', 'unique', 'from-box')) or (bn == 'unique' and c in ('weak-raw',)):
                    ok = False
                    break
                # rename auxiliary handles so that repeated calls do not clash
                ren = []
                for o in co:
                    o = dict(o)
                    for key in ('as', 'h', 'w', 'r', 'a', 'b', 'v'):
                        if key in o and o[key] in ('c', 'w2', 'u', 'w3', 'r', 'p', 'wr', 'pe') :
                            o[key] = '%s_%d' % (o[key], ci)
                    ren.append(o)
                ops += ren
                if still is False:
                    held = False
                elif still is None:
                    # try_unwrap: `a` is now either the same handle (Err) or a value (Ok); stop calling methods on it
                    held = False
                    ops += wobs
                    ops.append({'op': 'drop_any', 'h': 'a'})
                if held:
                    ops += obs
                ops += wobs
            if not ok:
                continue
            # end of program: everything the program still holds is released, in a fixed order
            ops.append({'op': 'note'})
            items.append(dict(prop='C07', name='%s: %s' % (bn, ' ; '.join(seq)), script={'ops': ops}, sym=True, oracles=set(),
                              opts={'panics_ok': True, 'abort_ok': True}, layouts=[None], post_path=_c07_post_path, accept_props=['C07']))
    return items


def replay_C07(P, native, rep, scratch):
    """confirm a disagreement against the real std::rc::Rc: the same concrete script on both native runners"""
    import runcheck, scripts as scr, subprocess, os
    cs = runcheck.concretise(rep['script'], rep['model'])
    for op in cs['ops']:
        if op['op'] in ('extras', 'wextras') and op['n'] > 100000:
            return False, 'counterexample needs %d handles' % op['n'], cs
    env = dict(os.environ)
    env.update(RUSTUP_TOOLCHAIN='nightly', CARGO_NET_OFFLINE='true', CARGO_TARGET_DIR=os.path.join(runcheck.VERIF, 'out', 'native-target-std'))
    r = subprocess.run(['cargo', 'build', '--offline', '--quiet', '--features', 'stdrc'], cwd=os.path.join(runcheck.VERIF, 'native'), env=env, capture_output=True, text=True)
    if r.returncode != 0:
        return False, 'std runner build failed', cs
    stdbin = os.path.join(env['CARGO_TARGET_DIR'], 'debug', 'vrunner')
    path = os.path.join(scratch, 'c07.txt')
    open(path, 'w').write(scr.to_text(cs, 'replay'))
    a = subprocess.run([native.bin, path, '0'], capture_output=True, text=True, timeout=60)
    b = subprocess.run([stdbin, path, '0'], capture_output=True, text=True, timeout=60)
    ta = scr.normalise(scr.parse_native(a.stdout).get('replay', {}).get('trace', []))
    tb = scr.normalise(scr.parse_native(b.stdout).get('replay', {}).get('trace', []))
    if ta != tb or a.returncode != b.returncode:
        d = next((('cactusref %r / std %r' % (x, y)) for x, y in zip(ta + [None] * 50, tb + [None] * 50) if x != y), 'exit status %s vs %s' % (a.returncode, b.returncode))
        return True, 'native: the same program gives different observations on cactusref and on std::rc::Rc: ' + d, cs
    return False, 'native: cactusref and std::rc::Rc agree on this program', cs


PROPS['C07'] = dict(items=items_C07, custom_replay=replay_C07,
                    bounds={'quick': {'states': '6 base states without adoption (one object with symbolic extra strong/Weak handles; owner holding a target that holds a Weak back; a leaking two-cycle; a unique handle with Weak::new; a value whose destructor inspects a Weak to itself; a child whose destructor inspects its dying parent)', 'programs': 'every sequence of <=2 calls and 150 seeded sequences of 3 calls out of 16 (clone, drop, downgrade, upgrade, Weak clone/drop, try_unwrap, get_mut, make_mut, raw round trips, increment/decrement_strong_count, ptr_eq, deref), counts observed through Rc and Weak after every call', 'oracle': 'reference model of std::rc written from the std documentation, run under each path condition; z3 decides equality of every returned count and forks the model where the path condition leaves a std decision open'},
                            'thorough': {'programs': 'plus 400 seeded sequences of 3 calls per base state'}},
                    outside=OUTSIDE + ['hashing / formatting / Default / Borrow / AsRef (not modelled; comparisons and From<T>/From<Box<T>> are)', 'counter values within 64 of usize::MAX (cactusref aborts one step earlier than std)', 'unsized coercions, downcast, Pin'],
                    vacuity=lambda results, extra: None if sum(r.get('extra', {}).get('std_branches', 0) for r in results) > 0 else 'the std model was never compared',
                    replay_oracles=[])


def replay_C14(P, native, rep, scratch):
    """a pay-as-you-go violation is confirmed natively with the counting allocator: the same clone/drop performs
    heap allocations in the real build (a reachability trace always allocates its work list)"""
    import runcheck, scripts as scr, driver
    cs = runcheck.concretise(rep['script'], rep['model'])
    for op in cs['ops']:
        if op['op'] in ('extras', 'wextras') and op['n'] > 100000:
            return False, 'counterexample needs %d handles' % op['n'], cs
    sc, out = driver.run_path(P, cs, [], None, False, set(), {'panics_ok': True, 'abort_ok': True})
    mcost = [t for t in sc.trace if t[0] == 'cost']
    res, rc, err = native.run([('replay', cs)], seed=0, timeout=60)
    ncost = [t for t in res.get('replay', {}).get('trace', []) if t[0] == 'ret' and t[1] in ('cost_clone', 'cost_drop')]
    dt = [t for t in res.get('replay', {}).get('trace', []) if t[0] == 'dtor']
    for i, m in enumerate(mcost):
        if (m[2][0] or m[2][1] or m[2][2]) and i < len(ncost) and isinstance(ncost[i][2], int) and ncost[i][2] > 0:
            return True, 'native: %s #%d performs %d heap allocation(s) in the real build (model: %d allocation events, %d trace calls)' % (ncost[i][1], i, ncost[i][2], m[2][0], m[2][1]), cs
    return False, 'native: no allocation observed at the clone/drop the model flags (native %r, model %r)' % (ncost, mcost), cs


PROPS['C14']['custom_replay'] = replay_C14


def replay_C04(P, native, rep, scratch):
    """a leak is confirmed with the native runner's counting allocator: after the same history (every handle and Weak
    dropped) the process holds more live heap blocks than before it started"""
    import runcheck, re
    if rep['clause'] != 'leak':
        return runcheck.replay_violation(P, native, rep, scratch)
    cs = runcheck.concretise(rep['script'], rep['model'])
    for op in cs['ops']:
        if op['op'] in ('extras', 'wextras') and op['n'] > 100000:
            return False, 'counterexample needs %d handles' % op['n'], cs
    res, rc, err = native.run([('replay', cs)], seed=0, timeout=60)
    end = (res.get('replay') or {}).get('end') or ''
    m = re.search(r'handles=0 leaked_blocks=(-?\d+)', end)
    if m and int(m.group(1)) > 0:
        return True, 'native: counting allocator reports %s live block(s) more than before the history (%s)' % (m.group(1), end), cs
    return False, 'native: no leaked block reported (%s, rc=%s)' % (end, rc), cs


PROPS['C04']['custom_replay'] = replay_C04


# ------------------------------------------------------------------ Weak API surface (clone, raw round trip, Weak::new) on linked and plain objects
def weak_api_items(prop, tier, seed, oracles):
    items = []
    R = lambda i, j: (i, j, True, False)
    for (n, e, nm) in [(1, [], 'plain1'), (2, [R(0, 1), R(1, 0)], 'ring2'), (2, [R(0, 1)], 'owner-target'), (1, [(0, 0, True, False)], 'selfclone1')]:
        for variant in ('clone-first', 'raw-first'):
            ops = F.build_ops(n, e, extras=True, wextras=True)
            ops += [{'op': 'downgrade', 'h': H(0), 'as': 'wa'}, {'op': 'weak_new', 'as': 'wn'}]
            steps = [[{'op': 'wclone', 'w': 'wa', 'as': 'wb'}], [{'op': 'w_into_raw', 'w': 'wa', 'as': 'ra'}, {'op': 'w_from_raw', 'r': 'ra', 'as': 'wa'}],
                     [{'op': 'wclone', 'w': 'wn', 'as': 'wn2'}, {'op': 'w_into_raw', 'w': 'wn2', 'as': 'rn'}, {'op': 'w_from_raw', 'r': 'rn', 'as': 'wn2'}],
                     [{'op': 'upgrade', 'w': 'wb', 'as': 'ub'}, {'op': 'strong_count', 'h': 'ub'}, {'op': 'drop', 'h': 'ub'}]]
            if variant == 'raw-first':
                steps = [steps[1], steps[0], steps[2], steps[3]]
            obs = [{'op': 'weak_count', 'h': H(0)}, {'op': 'strong_count', 'h': H(0)}, {'op': 'w_strong_count', 'w': 'wa'}, {'op': 'w_weak_count', 'w': 'wa'},
                   {'op': 'w_strong_count', 'w': 'wn'}, {'op': 'w_weak_count', 'w': 'wn'}, {'op': 'upgrade', 'w': 'wn'}]
            for st in steps:
                ops += st + obs
            # the object dies while the Weak handles (and their clones) are alive, then they are released one by one
            for i in range(n):
                ops.append({'op': 'drop', 'h': H(i)})
            tail = [{'op': 'w_strong_count', 'w': 'wa'}, {'op': 'w_weak_count', 'w': 'wa'}, {'op': 'upgrade', 'w': 'wa'}, {'op': 'upgrade', 'w': 'wb'}]
            ops += tail + [{'op': 'w_into_raw', 'w': 'wb', 'as': 'rb'}, {'op': 'w_from_raw', 'r': 'rb', 'as': 'wb'}] + tail
            ops += [{'op': 'wdrop', 'w': 'wb'}, {'op': 'w_weak_count', 'w': 'wa'}, {'op': 'wdrop', 'w': 'wn'}, {'op': 'wdrop', 'w': 'wn2'},
                    {'op': 'drop_all_wextras', 'obj': 0}, {'op': 'w_weak_count', 'w': 'wa'}, {'op': 'wdrop', 'w': 'wa'}]
            items.append(dict(prop=prop, name='weak-api %s %s' % (nm, variant), script={'ops': ops}, sym=True, oracles=set(oracles),
                              opts={'panics_ok': True, 'expect_all_freed': 'C04' in oracles}, layouts=[None, ('rank', tuple(range(n)), (0, 1, 2), 'obj', True)]))
    return items


# ------------------------------------------------------------------ handle-consuming / raw APIs injected into graph histories (all core oracles)
def api_items(prop, tier, seed, oracles, opts=None):
    """one API call on one object of a named shape, somewhere in the history, then the usual drops"""
    items = []
    apis = {
        'make_mut': lambda h: [{'op': 'make_mut', 'h': h}],
        'make_mut-unlinked': lambda h: [{'op': 'clone_mode', 'mode': 'unlinked'}, {'op': 'make_mut', 'h': h}],
        'get_mut': lambda h: [{'op': 'get_mut', 'h': h}],
        'raw-roundtrip': lambda h: [{'op': 'into_raw', 'h': h, 'as': 'rw'}, {'op': 'from_raw', 'r': 'rw', 'as': h}],
        'inc-dec': lambda h: [{'op': 'as_ptr', 'h': h, 'as': 'rp'}, {'op': 'inc_strong', 'r': 'rp'}, {'op': 'dec_strong', 'r': 'rp'}],
        'weak-raw': lambda h: [{'op': 'downgrade', 'h': h, 'as': 'wq'}, {'op': 'w_into_raw', 'w': 'wq', 'as': 'rq'}, {'op': 'w_from_raw', 'r': 'rq', 'as': 'wq'},
                               {'op': 'upgrade', 'w': 'wq'}, {'op': 'wdrop', 'w': 'wq'}],
        'release-via-raw': lambda h: [],
        'make_mut-sole-stored': lambda h: [],
    }
    named = dict(F.named_shapes(2))
    named.update(F.named_shapes(3))
    pick = ['ring2', 'ring3', 'ring2+tail', 'owner-of-ring2', 'ring2+leaf', 'ring3+selfclone']
    if tier != 'quick':
        pick = sorted(named)
    for nm in pick:
        e = named[nm]
        n = 1 + max(max(i, j) for (i, j, r, s) in e)
        for tgt in range(n):
            for an, mk in apis.items():
                for when in (0, 1):
                    seqs = F.drop_sequences(n, n)
                    for seq in (seqs[:2] if tier == 'quick' else seqs):
                        if ('h', tgt) in seq[:when]:
                            continue
                        ops = F.build_ops(n, e, extras=True)
                        ops += F.drop_ops(seq[:when])
                        ops += mk(H(tgt))
                        rest = F.drop_ops(seq[when:])
                        if an == 'make_mut-sole-stored':
                            # the program lets go of its own handles to the target; the handle its (first) adopter stores is then the only one:
                            # it is taken out, used for make_mut (unique, no Weak: must mutate in place) and put back
                            owners = [i for (i, j, r, q) in e if j == tgt and i != tgt and r]
                            if not owners or when != 0:
                                continue
                            ow = owners[0]
                            slot = [j for (i, j, r, q) in e if i == ow].index(tgt)
                            ops = F.build_ops(n, e, extras=True)
                            ops = [o for o in ops if not (o.get('op') == 'extras' and o.get('h') == H(tgt))]
                            ops += [{'op': 'drop', 'h': H(tgt)}, {'op': 'take', 'via': H(ow), 'slot': slot, 'as': 'sole'}, {'op': 'make_mut', 'h': 'sole'},
                                    {'op': 'strong_count', 'h': 'sole'}, {'op': 'store', 'via': H(ow), 'h': 'sole'}]
                            rest = [o for o in F.drop_ops(seq) if o.get('h') != H(tgt)]
                        if an == 'release-via-raw':
                            # the target's named handle is given up through into_raw + decrement_strong_count instead of a drop
                            rest = [({'op': 'drop_via_raw', 'h': o['h']} if o.get('op') == 'drop' and o.get('h') == H(tgt) else o) for o in rest]
                        ops += rest
                        items.append(dict(prop=prop, name='%s %s on %d after %d drops, drops=%s' % (nm, an, tgt, when, ''.join('%s%d' % q for q in seq)),
                                          script={'ops': ops}, sym=True, oracles=set(oracles), opts=dict(opts or {}), layouts=std_layouts(n, tier, seed)[:2]))
    return items


def _with_n3(b, q, t):
    import copy
    b = copy.deepcopy(b)
    b['quick']['objects'] = b['quick']['objects'].replace('N=3 shapes with <=3 edges', 'N=3 shapes with <=%d edges' % q)
    b['thorough']['objects'] = b['thorough']['objects'].replace('N=3 with <=4 edges incl. self edges', 'N=3 with <=%d edges (all shapes without self edges)' % t)
    return b


for _p in ('C01', 'C03', 'C08'):
    PROPS[_p]['bounds'] = _with_n3(BOUNDS_GRAPH, 4, 6)


# ------------------------------------------------------------------ debug-profile samples
# The crate's behaviour differs between profiles (debug_assert!s in get_mut_unchecked / Weak::as_ptr / from_box, cfg(debug_assertions)
# code in cycle_refs). A seeded sample of the scenario items of these properties is decided a second time on the MIR dumped with
# -C debug-assertions=on: every oracle must hold there too.
def _with_debug_sample(pid, nq, nt):
    base = PROPS[pid]['items']

    def items(tier, seed, P, base=base):
        its = base(tier, seed, P)
        cand = [it for it in its if not it['name'].startswith('lemma') and not it.get('witness') and 'post_item' not in it and 'finish' not in it]
        rnd = random.Random('dbg|%s|%d' % (pid, seed))
        k = nq if tier == 'quick' else nt
        # histories with an elided unadopt are where a debug-only invariant check is most likely to be wrong: always included
        must = [it for it in cand if 'stale' in (it.get('tags') or []) or (it.get('opts') or {}).get('stale')]
        rest = [it for it in cand if it not in must]
        pick = must + rnd.sample(rest, min(k, len(rest)))
        return its + _debug_profile_copies(pick, lambda it: True, k + len(must))
    PROPS[pid]['items'] = items


for _pid, _nq, _nt in (('C02', 80, 600), ('C03', 60, 400), ('C06', 60, 400), ('C10', 40, 300), ('C11', 40, 300), ('C12', 60, 400), ('C05', 30, 200), ('C13', 40, 300)):
    _with_debug_sample(_pid, _nq, _nt)
