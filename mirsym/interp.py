"""Symbolic executor for the MIR of the crate under test.

Scalars (usize/isize/bool) are python ints/bools or z3 terms; the heap shape,
aggregates, enum discriminants and pointers are concrete per path. A branch on
a symbolic operand asks z3 which successors are feasible and forks by
re-execution (decision replay, depth first).
"""
import re
import sys
import time
import z3

from values import *
import mirparse
from mirparse import scan_balanced, split_top

sys.setrecursionlimit(20000)


class Unsupported(Exception):
    """Encoder limit reached: exit code 2, never a verdict."""


class Panic(Exception):
    def __init__(self, msg, where=''):
        Exception.__init__(self, msg)
        self.msg = msg
        self.where = where


class Abort(Exception):
    """process abort (intrinsics::abort, panic in cleanup, ...)"""


class UB(Exception):
    """monitor event: the library touched memory it must not touch"""
    def __init__(self, kind, detail=''):
        Exception.__init__(self, '%s: %s' % (kind, detail))
        self.kind = kind
        self.detail = detail


class PathInfeasible(Exception):
    pass


class Obj:
    __slots__ = ('kind', 'value', 'live', 'meta')

    def __init__(self, kind, value, meta=None):
        self.kind = kind
        self.value = value
        self.live = True
        self.meta = meta or {}


class MapData:
    """finite map with explicit iteration order (list of keys)"""
    def __init__(self, is_set=False):
        self.keys = []      # in storage order
        self.vals = {}
        self.is_set = is_set
        self.ever_allocated = False


# ------------------------------------------------------------------ types

def ty_strip(ty):
    return ty.strip()


def ty_head(ty):
    """path of a type without generic args: 'core::option::Option<X>' -> 'core::option::Option'"""
    ty = ty.strip()
    if ty.startswith(('&', '*', '(', '[', '{', 'fn(', 'impl ', 'dyn ', '!')):
        if ty.startswith('{closure@'):
            return '{closure}'
        return ty[:1] if not ty.startswith(('impl ', 'dyn ', 'fn(')) else ty.split('(')[0].split(' ')[0]
    k = scan_balanced(ty, 0, '<')
    return ty[:k]


def ty_args(ty):
    ty = ty.strip()
    k = scan_balanced(ty, 0, '<')
    if k >= len(ty):
        return []
    return split_top(ty[k + 1:ty.rindex('>')])


def last_seg(path):
    return path.split('::')[-1]


def deref_ty(ty):
    ty = ty.strip()
    for pre in ('&mut ', '&', '*const ', '*mut '):
        if ty.startswith(pre):
            rest = ty[len(pre):]
            if pre == '&' and rest.startswith("'"):
                rest = rest.split(' ', 1)[1]
                if rest.startswith('mut '):
                    rest = rest[4:]
            return rest
    if ty_head(ty) in ('alloc::boxed::Box', 'Box'):
        return ty_args(ty)[0]
    if ty_head(ty) in ('core::ptr::NonNull', 'NonNull', 'core::ptr::Unique'):
        return ty_args(ty)[0]
    return '?'


TRANSPARENT = {'core::ptr::Unique', 'core::ptr::NonNull', 'core::mem::ManuallyDrop',
               'core::mem::MaybeDangling', 'core::mem::MaybeUninit', 'alloc::boxed::Box',
               'core::cell::Cell', 'core::cell::UnsafeCell', 'core::pin::Pin', 'core::num::NonZero',
               'NonNull', 'Unique', 'ManuallyDrop', 'MaybeUninit', 'Box', 'Cell', 'Pin', 'NonZero',
               'std::mem::MaybeUninit', 'std::mem::ManuallyDrop'}

ENUMS = {
    'Option': ['None', 'Some'],
    'Result': ['Ok', 'Err'],
    'ControlFlow': ['Continue', 'Break'],
    'Level': [None, 'Error', 'Warn', 'Info', 'Debug', 'Trace'],
    'LevelFilter': ['Off', 'Error', 'Warn', 'Info', 'Debug', 'Trace'],
    'AssertKind': ['Eq', 'Ne', 'Match'],
    'Entry': ['Occupied', 'Vacant'],
    'Ordering': ['Less', 'Equal', 'Greater'],
}


def strip_generics(s):
    """remove every <...> group (turbofish or type args) and lifetimes from a path"""
    out = []
    i = 0
    n = len(s)
    while i < n:
        c = s[i]
        if c == '<':
            j = scan_balanced(s, i + 1, '>')
            i = j + 1
            # drop a '::' that preceded the turbofish
            if out and ''.join(out).endswith('::'):
                out = list(''.join(out)[:-2])
            continue
        out.append(c)
        i += 1
    return ''.join(out)


def type_head_name(t, keep_ref=False):
    """short head of a type expression: '&mut RcBox<T>' -> 'RcBox', 'rc::Rc<T>' -> 'Rc'"""
    t = t.strip()
    pref = ''
    for pre in ('&mut ', '&', '*const ', '*mut '):
        if t.startswith(pre):
            t = t[len(pre):]
            if t.startswith("'"):
                t = t.split(' ', 1)[1]
                if t.startswith('mut '):
                    t = t[4:]
                    pre = '&mut '
            pref = pre
            break
    if not keep_ref:
        pref = ''
    if t.startswith('impl ') or t.startswith('dyn '):
        return pref + t.split('(')[0].split('<')[0].strip()
    if t.startswith('{closure@'):
        return pref + t
    k = scan_balanced(t, 0, '<')
    return pref + last_seg(t[:k].strip())


def norm_callee(s):
    """-> (key, self_ty, generics_of_last_segment)"""
    s = s.strip()
    gen = []
    if s.startswith('<'):
        j = scan_balanced(s, 1, '>')
        inner = s[1:j]
        rest = s[j + 1:]
        k = _find_as(inner)
        if k is None:
            a, tr = inner, None
        else:
            a, tr = inner[:k], inner[k + 4:]
        m = re.match(r'^::([A-Za-z_0-9]+)(::<(.*)>)?$', rest)
        if not m:
            raise Unsupported('callee form: %r' % s)
        meth = m.group(1)
        if m.group(3):
            gen = split_top(m.group(3))
        ah = type_head_name(a, keep_ref=True)
        if tr is None:
            return ('%s::%s' % (ah, meth), a.strip(), gen)
        trh = last_seg(strip_generics(tr))
        return ('<%s as %s>::%s' % (ah, trh, meth), a.strip(), gen)
    # plain path, maybe with turbofish on the last segment
    if s.endswith('>'):
        depth = 0
        i = len(s) - 1
        while i >= 0:
            c = s[i]
            if c == '>' and not (i > 0 and s[i - 1] in '-='):
                depth += 1
            elif c == '<':
                depth -= 1
                if depth == 0:
                    break
            i -= 1
        if i >= 2 and s[i - 2:i] == '::':
            gen = split_top(s[i + 1:-1])
    self_ty = None
    m = re.match(r'^(.*?)::<(.*)>::([A-Za-z_0-9]+)(::<.*>)?$', s)
    if m and '<' not in m.group(1):
        inner = m.group(2)
        if inner.startswith('impl '):
            self_ty = inner[5:]
        else:
            self_ty = '%s<%s>' % (m.group(1), inner)
    segs = strip_generics(s).split('::')
    key = '::'.join(segs[-2:])
    return (key, self_ty, gen)


def _find_as(s):
    i = 0
    while True:
        j = scan_balanced(s, i, ' ')
        if j >= len(s):
            return None
        if s.startswith(' as ', j):
            return j
        i = j + 1


# ------------------------------------------------------------------ source index (impl headers, enums)

class SourceIndex:
    """Reads src/*.rs only to (1) map `<impl at file:line:col>` spans of body
    names to (self type, trait) and (2) read `enum` variant orders."""

    def __init__(self, repo_dir):
        self.repo = repo_dir
        self.files = {}
        self.enums = dict(ENUMS)

    def lines(self, f):
        if f not in self.files:
            self.files[f] = open('%s/%s' % (self.repo, f)).read().split('\n')
        return self.files[f]

    def impl_at(self, f, l1, c1, l2, c2):
        ls = self.lines(f)
        if l1 == l2:
            text = ls[l1 - 1][c1 - 1:c2 - 1]
        else:
            text = ' '.join([ls[l1 - 1][c1 - 1:]] + ls[l1:l2 - 1] + [ls[l2 - 1][:c2 - 1]])
        text = text.strip()
        if text.startswith('unsafe '):
            text = text[7:]
        if text.startswith('impl'):
            t = text[4:].strip()
            if t.startswith('<'):
                j = scan_balanced(t, 1, '>')
                t = t[j + 1:].strip()
            k = _find_for(t)
            if k is not None:
                tr, st = t[:k], t[k + 5:]
                return type_head_name(st), last_seg(strip_generics(tr).strip())
            return type_head_name(t), None
        # derive: text is the trait name; self type = next struct/enum declaration
        tr = last_seg(text)
        for k in range(l1 - 1, min(len(ls), l1 + 10)):
            m = re.match(r'\s*(?:pub(?:\([a-z]+\))? )?(?:enum|struct) (\w+)', ls[k])
            if m:
                return m.group(1), tr
        raise Unsupported('cannot resolve derive span %s:%d' % (f, l1))

    def load_structs(self):
        """field types of the crate's own structs (needed for drop glue of local types that are not summarised)"""
        import glob
        self.structs = {}
        for path in glob.glob(self.repo + '/src/*.rs'):
            txt = open(path).read()
            txt = re.sub(r'//[^\n]*', '', txt)
            for m in re.finditer(r'struct (\w+)\s*(<[^{;(]*>)?\s*\(([^;]*)\)\s*;', txt):
                # tuple struct
                self.structs[m.group(1)] = [(str(k), re.sub(r'^pub(\([a-z]+\))?\s+', '', part.strip())) for k, part in enumerate(split_top(m.group(3)))]
            for m in re.finditer(r'struct (\w+)\s*(<[^{;(]*>)?\s*(?:where[^{]*)?\{([^}]*)\}', txt):
                fields = []
                for part in split_top(m.group(3)):
                    part = re.sub(r'#\[[^\]]*\]', '', part).strip()
                    part = re.sub(r'^pub(\([a-z]+\))?\s+', '', part)
                    if ':' in part:
                        fn, ft = part.split(':', 1)
                        fields.append((fn.strip(), ft.strip()))
                self.structs[m.group(1)] = fields

    def load_enums(self):
        import glob
        for path in glob.glob(self.repo + '/src/*.rs'):
            txt = open(path).read()
            for m in re.finditer(r'enum (\w+)\s*\{([^}]*)\}', txt):
                body = re.sub(r'//[^\n]*', '', m.group(2))
                body = re.sub(r'#\[[^\]]*\]', '', body)
                vs = [v.strip().split('(')[0].split('{')[0].split('=')[0].strip() for v in body.split(',')]
                vs = [v for v in vs if v]
                self.enums[m.group(1)] = vs


def _find_for(t):
    i = 0
    while True:
        j = scan_balanced(t, i, ' ')
        if j >= len(t):
            return None
        if t.startswith(' for ', j):
            return j
        i = j + 1


class Program:
    """Parsed MIR + resolution tables. Immutable across paths."""

    def __init__(self, mir_text, repo_dir):
        self.bodies = mirparse.parse_mir(mir_text)
        self.src = SourceIndex(repo_dir)
        self.src.load_enums()
        self.src.load_structs()
        self.methods = {}    # (selfhead, trait|None, method) -> body
        self.free = {}       # name -> body   (free functions, trait defaults 'Trait::m')
        self.closures = {}   # closure type string -> body
        self.local_traits = set()
        import glob, os
        self.modules = set(os.path.basename(p)[:-3] for p in glob.glob(repo_dir + '/src/*.rs'))
        for name, b in self.bodies.items():
            if b.is_promoted:
                continue
            m = re.search(r'<impl at (src/[\w/]+\.rs):(\d+):(\d+): (\d+):(\d+)>::(.*)$', name)
            if '{closure#' in name:
                a0 = b.args[0][1]
                ct = type_head_name(a0)
                self.closures[ct] = b
                continue
            if m:
                sh, tr = self.src.impl_at(m.group(1), int(m.group(2)), int(m.group(3)), int(m.group(4)), int(m.group(5)))
                if tr == 'From':
                    # several From impls for one type: keyed by the argument type as well
                    at = type_head_name(b.args[0][1]) if b.args else '?'
                    self.methods[(sh, 'From<%s>' % at, m.group(6))] = b
                self.methods[(sh, tr, m.group(6))] = b
            else:
                self.free[name] = b
                if '::' in name:
                    self.local_traits.add(name.split('::')[0])

    def enum_index(self, ename, variant):
        vs = self.src.enums.get(ename)
        if vs is None or variant not in vs:
            raise Unsupported('unknown enum variant %s::%s' % (ename, variant))
        return vs.index(variant)


class Frame:
    __slots__ = ('body', 'obj', 'self_ty', 'locals', 'depth')


class Engine:
    def __init__(self, program, hooks=None, decisions=None, layout=None):
        self.P = program
        self.hooks = hooks
        self.heap = {}
        self.next_id = 1
        self.depth = 0
        self.max_depth = 0
        self.rc_drop_depth = 0
        self.max_rc_drop_depth = 0
        self.nstmts = 0
        self.call_counts = {}
        self.events = []          # ('alloc', what) / ('dealloc', obj) ...
        self.alloc_events = 0
        self.summaries_used = set()
        self.work = 0
        self.summary_counts = {}
        self.bodies_used = set()
        # path / solver
        self.solver = z3.Solver()
        self.pc = []
        self.decisions = list(decisions or [])
        self.dpos = 0
        self.new_alternatives = []   # decision prefixes to explore later
        self.nqueries = 0
        self.solver_time = 0.0
        self.promoted_cache = {}
        self.layout = layout       # callable key -> sortable rank, or None = insertion order
        self.eq_cache = {}
        self.unwinding = 0
        self.stack = []
        self.trace_calls = False
        self.stmt_budget = 2_000_000
        from summaries import SUMMARIES
        self.S = SUMMARIES

    # ---------------------------------------------------------------- solver / forking
    def assume(self, cond):
        if isinstance(cond, bool):
            if not cond:
                raise PathInfeasible()
            return
        self.pc.append(cond)
        self.solver.add(cond)

    def check(self, extra=None):
        t = time.time()
        self.nqueries += 1
        if extra is None:
            r = self.solver.check()
        else:
            self.solver.push()
            self.solver.add(extra)
            r = self.solver.check()
            self.solver.pop()
        self.solver_time += time.time() - t
        if r == z3.unknown:
            raise Unsupported('solver returned unknown')
        return r == z3.sat

    def model(self, extra=None):
        if extra is not None:
            self.solver.push()
            self.solver.add(extra)
        r = self.solver.check()
        m = self.solver.model() if r == z3.sat else None
        if extra is not None:
            self.solver.pop()
        return m

    def branch(self, cond):
        """decide a (possibly symbolic) boolean; forks when both outcomes are feasible"""
        if isinstance(cond, bool):
            return cond
        cond = z3.simplify(cond)
        if z3.is_true(cond):
            return True
        if z3.is_false(cond):
            return False
        if self.dpos < len(self.decisions):
            d = self.decisions[self.dpos]
            self.dpos += 1
            self.assume(cond if d else z3.Not(cond))
            return bool(d)
        can_t = self.check(cond)
        can_f = self.check(z3.Not(cond))
        if not can_t and not can_f:
            raise PathInfeasible()
        if can_t and can_f:
            self.new_alternatives.append(self.decisions + [0])
            d = 1
        else:
            d = 1 if can_t else 0
        self.decisions.append(d)
        self.dpos += 1
        self.assume(cond if d else z3.Not(cond))
        return bool(d)

    def choose(self, n, what=''):
        """structural n-way fork (enumerated exhaustively)"""
        if n <= 1:
            return 0
        if self.dpos < len(self.decisions):
            d = self.decisions[self.dpos]
            self.dpos += 1
            return d
        for k in range(n - 1, 0, -1):
            self.new_alternatives.append(self.decisions + [k])
        self.decisions.append(0)
        self.dpos += 1
        return 0

    def concretize_bool(self, cond):
        return self.branch(cond)

    # ---------------------------------------------------------------- heap
    def new_obj(self, kind, value, meta=None):
        i = self.next_id
        self.next_id += 1
        self.heap[i] = Obj(kind, value, meta)
        return i

    def obj_of(self, ptr, access='access'):
        if not isinstance(ptr, Ptr):
            if ptr is DANGLING:
                raise UB('dangling-deref', 'access through the Weak::new sentinel')
            raise Unsupported('deref of non-pointer %r' % (ptr,))
        o = self.heap[ptr.obj]
        if not o.live:
            raise UB('use-after-free', '%s of released %s #%d%s' % (access, o.kind, ptr.obj, o.meta.get('label', '')))
        return o

    def read(self, ptr):
        o = self.obj_of(ptr, 'read')
        return self._get(o, ptr.path)

    def write(self, ptr, val):
        o = self.obj_of(ptr, 'write')
        self._set(o, ptr.path, val)

    def _get(self, o, path):
        if o.kind == 'frame':
            if not path:
                raise Unsupported('read of whole frame')
            v = o.value.get(path[0], UNINIT)
            path = path[1:]
        elif o.kind == 'map':
            md = o.value
            if not path:
                raise Unsupported('read of whole map')
            tag, key = path[0]
            if key not in md.vals:
                raise UB('dangling-map-ref', 'map entry no longer present')
            v = key if tag == 'key' else md.vals[key]
            path = path[1:]
        elif o.kind == 'vec':
            if not path:
                raise Unsupported('read of whole vec')
            v = o.value[path[0]]
            path = path[1:]
        else:
            v = o.value
        for p in path:
            if not isinstance(v, Agg):
                if v is UNINIT:
                    raise UB('uninit-read', 'projection into moved-out/uninitialised value')
                raise Unsupported('projection .%s into %r' % (p, v))
            if p >= len(v.fields):
                if v.name == '?' and isinstance(p, int):
                    # a block that was initialised field by field (ptr::write of the leading fields): the rest is uninitialised memory
                    v = UNINIT
                    continue
                raise Unsupported('field %s out of range in %r' % (p, v))
            v = v.fields[p]
        return v

    def _set(self, o, path, val):
        if o.kind == 'frame':
            if len(path) == 1:
                o.value[path[0]] = val
            else:
                o.value[path[0]] = self._set_in(o.value.get(path[0], UNINIT), path[1:], val)
        elif o.kind == 'map':
            tag, key = path[0]
            md = o.value
            if key not in md.vals:
                raise UB('dangling-map-ref', 'write to map entry no longer present')
            if tag == 'key':
                raise Unsupported('write to map key')
            md.vals[key] = val if len(path) == 1 else self._set_in(md.vals[key], path[1:], val)
        elif o.kind == 'vec':
            o.value[path[0]] = val if len(path) == 1 else self._set_in(o.value[path[0]], path[1:], val)
        else:
            o.value = val if not path else self._set_in(o.value, path, val)

    def _set_in(self, v, path, val):
        if not path:
            return val
        if v is UNINIT:
            v = Agg('?', None, ())
        if not isinstance(v, Agg):
            raise Unsupported('field write into %r' % (v,))
        i = path[0]
        cur = v.fields[i] if i < len(v.fields) else UNINIT
        return v.with_field(i, self._set_in(cur, path[1:], val))

    # ---------------------------------------------------------------- places
    def place_ptr(self, fr, place, for_ref=False):
        """resolve a MIR place to a pointer (no read of the final place)"""
        ptr = Ptr(fr.obj, (place.local,))
        ty = fr.body.local_types.get(place.local, '?')
        for pr in place.projs:
            k = pr[0]
            if k == 'deref':
                v = self.read(ptr)
                if v is DANGLING:
                    raise UB('dangling-deref', 'deref of dangling sentinel')
                if not isinstance(v, Ptr):
                    if v is UNINIT:
                        raise UB('uninit-read', 'deref of uninitialised pointer')
                    raise Unsupported('deref of %r in %s' % (v, fr.body.name))
                ptr = v
                ty = deref_ty(ty)
            elif k == 'field':
                if ty_head(ty) in TRANSPARENT:
                    pass
                else:
                    ptr = ptr.field(pr[1])
                ty = pr[2]
            elif k == 'downcast':
                pass
            elif k == 'constindex':
                ptr = ptr.field(pr[1])
            elif k == 'index':
                idx = self.read(Ptr(fr.obj, (pr[1],)))
                if is_sym(idx):
                    raise Unsupported('symbolic index')
                ptr = ptr.field(idx)
            else:
                raise Unsupported('projection %r' % (pr,))
        return ptr, ty

    def read_place(self, fr, place):
        ptr, ty = self.place_ptr(fr, place)
        return self.read(ptr)

    # ---------------------------------------------------------------- operands / rvalues
    def const(self, fr, text):
        t = text.strip()
        if t == '()':
            return UNIT
        if t == 'true':
            return True
        if t == 'false':
            return False
        m = re.match(r'^(-?\d+)_(usize|isize|u8|u16|u32|u64|i8|i16|i32|i64|u128|i128)$', t)
        if m:
            return int(m.group(1)) & MASK
        if t in ('core::num::<impl usize>::MAX', 'usize::MAX', 'std::usize::MAX', 'core::usize::MAX'):
            return MASK
        if t == 'isize::MIN':
            return ISIZE_MIN
        if t == 'isize::MAX':
            return ISIZE_MIN - 1
        if t.startswith('"') or t.startswith('b"'):
            cache = self.__dict__.setdefault('_static_strs', {})
            if t not in cache:
                cache[t] = self.new_obj('static', Opaque('str:' + t.strip('b').strip('"')))
            return Ptr(cache[t])
        if re.match(r'^<.* as core::mem::SizedTypeProperties>::(ALIGN|SIZE|IS_ZST)$', t):
            # layout constants of the debug-assertion pointer checks: opaque, every pointer the model hands out is aligned
            return Opaque('layout:' + t.rsplit('::', 1)[1])
        if t == 'log::STATIC_MAX_LEVEL':
            return Agg('LevelFilter', 'Trace')
        if t.endswith(']') and '::promoted[' in t:
            idx = t[t.rindex('['):]
            name = fr.body.name + '::promoted' + idx
            if name not in self.P.bodies:
                raise Unsupported('promoted not found: %s' % name)
            if name not in self.promoted_cache:
                self.promoted_cache[name] = self.run_body(self.P.bodies[name], [], None, keep_frame=True)
            return self.promoted_cache[name]
        # a named constant of the crate (`const rc::DATA_OFFSET`, possibly an inline const block of it): evaluate its MIR body
        for cand in (t, t.split('::', 1)[1] if '::' in t else t):
            b = self.P.bodies.get(cand)
            if b is not None and b.is_promoted is False and b.header.startswith('const '):
                if cand not in self.promoted_cache:
                    self.promoted_cache[cand] = self.run_body(b, [], None, keep_frame=True)
                return self.promoted_cache[cand]
        m = re.match(r'^ZeroSized: (.*)$', t)
        if m:
            return Agg(type_head_name(m.group(1)))
        raise Unsupported('constant %r' % t)

    def operand(self, fr, op):
        k = op[0]
        if k == 'copy' or k == 'move':
            return self.read_place(fr, op[1])
        if k == 'const':
            return self.const(fr, op[1])
        if k == 'fnitem':
            return FnItem(op[1])
        raise Unsupported('operand %r' % (op,))

    def rvalue(self, fr, rv):
        k = rv[0]
        if k == 'use':
            return self.operand(fr, rv[1])
        if k == 'ref':
            ptr, ty = self.place_ptr(fr, rv[1])
            # creating a reference into a released block is UB (dangling reference)
            if isinstance(ptr, Ptr) and not self.heap[ptr.obj].live:
                raise UB('use-after-free', 'reference created into released %s #%d' % (self.heap[ptr.obj].kind, ptr.obj))
            return ptr
        if k == 'rawref':
            ptr, ty = self.place_ptr(fr, rv[1])
            return ptr
        if k == 'discriminant':
            v = self.read_place(fr, rv[1])
            return self.discriminant(v)
        if k == 'cast':
            return self.cast(rv[1], self.operand(fr, rv[2]), rv[3])
        if k == 'binop':
            return self.binop(rv[1], self.operand(fr, rv[2]), self.operand(fr, rv[3]))
        if k == 'unop':
            return self.unop(rv[1], self.operand(fr, rv[2]))
        if k == 'tuple':
            if not rv[1]:
                return UNIT
            return tup(*[self.operand(fr, o) for o in rv[1]])
        if k == 'array':
            return Agg('array', None, [self.operand(fr, o) for o in rv[1]])
        if k == 'struct':
            name = rv[1]
            if name.startswith('{closure@'):
                nm = name
            else:
                nm = last_seg(strip_generics(name))
            return Agg(nm, None, [self.operand(fr, o) for (_, o) in rv[2]])
        if k == 'variant':
            en, var = self.variant_name(rv[1])
            return Agg(en, var, [self.operand(fr, o) for o in rv[2]])
        if k == 'unit':
            name = rv[1]
            if name.startswith('{closure@'):
                return Agg(name, None, ())
            en, var = self.variant_name(name)
            return Agg(en, var, ())
        if k == 'len':
            v = self.read_place(fr, rv[1])
            return len(v.fields)
        raise Unsupported('rvalue %r' % (rv,))

    def variant_name(self, path):
        segs = strip_generics(path).split('::')
        if len(segs) >= 2 and segs[-2] in self.P.src.enums:
            return segs[-2], segs[-1]
        return segs[-1], None

    def discriminant(self, v):
        if isinstance(v, Agg) and v.variant is not None:
            return self.P.enum_index(v.name, v.variant)
        if v is UNINIT:
            raise UB('uninit-read', 'discriminant of uninitialised value')
        raise Unsupported('discriminant of %r' % (v,))

    def cast(self, kind, v, ty):
        if kind in ('PtrToPtr', 'Transmute', 'MutToConstPointer', 'PointerCoercion(MutToConstPointer, Implicit)',
                    'PointerCoercion(Unsize, Implicit)', 'PointerCoercion(MutToConstPointer, AsCast)', 'FnPtrToPtr',
                    'PointerCoercion(ReifyFnPointer, Implicit)', 'PointerCoercion(ReifyFnPointer, AsCast)',
                    'PointerCoercion(ClosureFnPointer(Safe), Implicit)'):
            return v
        if kind == 'PointerExposeProvenance':
            if v is DANGLING:
                return MASK
            if isinstance(v, Ptr):
                return PtrInt(v)
            raise Unsupported('expose of %r' % (v,))
        if kind == 'PointerWithExposedProvenance':
            if isinstance(v, PtrInt):
                return v.ptr
            if v == MASK:
                return DANGLING
            raise Unsupported('int-to-pointer cast of %r' % (v,))
        if kind == 'IntToInt':
            if isinstance(v, (OffsetTok, PtrInt)):
                return v
            if isinstance(v, bool):
                return 1 if v else 0
            if is_sym(v) and z3.is_bool(v):
                return z3.If(v, z3.BitVecVal(1, 64), z3.BitVecVal(0, 64))
            if ty.strip() in ('usize', 'isize', 'u64', 'i64'):
                return v
            if is_sym(v):
                raise Unsupported('narrowing cast of symbolic value to %s' % ty)
            bits = {'u8': 8, 'u16': 16, 'u32': 32, 'i8': 8, 'i16': 16, 'i32': 32}.get(ty.strip())
            if bits is None:
                raise Unsupported('IntToInt to %s' % ty)
            return v & ((1 << bits) - 1)
        raise Unsupported('cast kind %s' % kind)

    def binop(self, op, a, b):
        # alignment / size arithmetic of the compiler-inserted debug pointer checks (`addr & (ALIGN-1) == 0`)
        if (isinstance(a, Opaque) and str(a.what).startswith('layout')) or (isinstance(b, Opaque) and str(b.what).startswith('layout')):
            if op in ('Eq', 'Ne'):
                other = b if isinstance(a, Opaque) else a
                tok = a if isinstance(a, Opaque) else b
                if other == 0 and tok.what == 'layout:mask':
                    return op == 'Eq'          # address & (align-1) == 0: aligned
                if other == 0 and tok.what in ('layout:SIZE', 'layout:ALIGN'):
                    return op == 'Ne'          # sizes of the types involved are not zero
                raise Unsupported('comparison of a layout constant')
            if op in ('Sub', 'SubWithOverflow', 'BitAnd', 'Add', 'AddWithOverflow'):
                r = Opaque('layout:mask')
                return tup(r, False) if op.endswith('WithOverflow') else r
            raise Unsupported('arithmetic on a layout constant: %s' % op)
        # pointer-derived integers
        if isinstance(a, PtrInt) or isinstance(b, PtrInt):
            if op in ('Sub', 'SubWithOverflow', 'SubUnchecked') and isinstance(a, PtrInt) and isinstance(b, PtrInt):
                pa, pb = a.ptr, b.ptr
                if pa.obj == pb.obj and pa.path[:len(pb.path)] == pb.path:
                    r = OffsetTok(pa.path[len(pb.path):])
                    return tup(r, False) if op == 'SubWithOverflow' else r
                raise Unsupported('difference of unrelated pointers')
            if op in ('Eq', 'Ne'):
                if isinstance(a, PtrInt) and isinstance(b, PtrInt):
                    r = a.ptr == b.ptr
                else:
                    r = False   # a real address never equals an integer constant we know (0 / MAX)
                return r if op == 'Eq' else (not r)
            raise Unsupported('arithmetic on exposed pointer: %s' % op)
        if isinstance(a, OffsetTok) or isinstance(b, OffsetTok):
            if op in ('Eq', 'Ne') and isinstance(a, OffsetTok) and not isinstance(b, OffsetTok):
                # e.g. `offset == isize::MIN`: offsets are small
                return op == 'Ne'
            raise Unsupported('arithmetic on offset token: %s' % op)
        if isinstance(a, (Ptr, Dangling)) or isinstance(b, (Ptr, Dangling)):
            if op in ('Eq', 'Ne'):
                r = (a == b)
                return r if op == 'Eq' else (not r)
            raise Unsupported('pointer arithmetic %s' % op)
        if isinstance(a, Agg) or isinstance(b, Agg):
            if op in ('Eq', 'Ne'):
                r = (a == b)
                return r if op == 'Eq' else (not r)
            raise Unsupported('binop %s on aggregates' % op)
        if op == 'Eq':
            return s_eq(a, b)
        if op == 'Ne':
            return s_not(s_eq(a, b))
        if op == 'Lt':
            return s_ult(a, b)
        if op == 'Le':
            return s_ule(a, b)
        if op == 'Gt':
            return s_ult(b, a)
        if op == 'Ge':
            return s_ule(b, a)
        if op in ('Add', 'AddUnchecked'):
            return s_add(a, b)
        if op in ('Sub', 'SubUnchecked'):
            return s_sub(a, b)
        if op == 'AddWithOverflow':
            r = s_add(a, b)
            return tup(r, s_ult(r, a))
        if op == 'SubWithOverflow':
            return tup(s_sub(a, b), s_ult(a, b))
        if op == 'BitAnd' and (isinstance(a, bool) or z3.is_bool(a) if is_sym(a) else isinstance(a, bool)):
            if isinstance(a, bool) and isinstance(b, bool):
                return a and b
            return z3.And(a if is_sym(a) else z3.BoolVal(a), b if is_sym(b) else z3.BoolVal(b))
        if op == 'BitOr' and (isinstance(a, bool) or (is_sym(a) and z3.is_bool(a))):
            if isinstance(a, bool) and isinstance(b, bool):
                return a or b
            return z3.Or(a if is_sym(a) else z3.BoolVal(a), b if is_sym(b) else z3.BoolVal(b))
        if op in ('Mul', 'MulWithOverflow') and not is_sym(a) and not is_sym(b):
            r = a * b
            return tup(r & MASK, r > MASK) if op == 'MulWithOverflow' else (r & MASK)
        raise Unsupported('binop %s' % op)

    def unop(self, op, a):
        if op == 'Not':
            if isinstance(a, bool):
                return not a
            if is_sym(a) and z3.is_bool(a):
                return z3.Not(a)
            if is_sym(a):
                return ~a
            return (~a) & MASK
        if op == 'Neg':
            if isinstance(a, OffsetTok):
                return OffsetTok(a.path, -a.sign, a.tag)
            if is_sym(a):
                return -a
            return (-a) & MASK
        raise Unsupported('unop %s' % op)

    # ---------------------------------------------------------------- execution
    def run_body(self, body, args, self_ty, keep_frame=False):
        fr = Frame()
        fr.body = body
        fr.self_ty = self_ty
        fr.obj = self.new_obj('frame', {}, {'label': ' frame of ' + body.name})
        fobj = self.heap[fr.obj]
        if len(args) != len(body.args):
            raise Unsupported('arity mismatch calling %s: %d vs %d' % (body.name, len(args), len(body.args)))
        for (loc, _), a in zip(body.args, args):
            fobj.value[loc] = a
        self.depth += 1
        if self.depth > self.max_depth:
            self.max_depth = self.depth
        self.call_counts[body.name] = self.call_counts.get(body.name, 0) + 1
        self.bodies_used.add(body.name)
        self.stack.append(body.name)
        try:
            return self._exec(fr, fobj)
        except (UB, Panic, Abort) as e:
            if not hasattr(e, 'stack'):
                e.stack = list(self.stack)
            raise
        finally:
            self.stack.pop()
            self.depth -= 1
            if not keep_frame:
                fobj.live = False

    def _exec(self, fr, fobj):
        body = fr.body
        bb = 0
        pending = None      # in-flight panic while running cleanup blocks
        while True:
            stmts = body.block(bb)
            nxt = None
            for st in stmts:
                self.nstmts += 1
                k = st[0]
                if k == 'storage' or k == 'nop':
                    continue
                if k == 'assign':
                    val = self.rvalue(fr, st[2])
                    dst = st[1]
                    if not dst.projs:
                        fobj.value[dst.local] = val
                    else:
                        ptr, _ = self.place_ptr(fr, dst)
                        self.write(ptr, val)
                    continue
                if self.nstmts > self.stmt_budget:
                    raise Unsupported('statement budget exhausted')
                if k == 'goto':
                    nxt = st[1]
                    break
                if k == 'return':
                    return fobj.value.get(0, UNIT)
                if k == 'switch':
                    v = self.operand(fr, st[1])
                    nxt = self.switch(v, st[2], st[3])
                    break
                if k == 'call':
                    _, dst, callee, aops, ret, unw = st
                    args = [self.operand(fr, a) for a in aops]
                    try:
                        val = self.invoke(callee, args, fr)
                    except Panic as p:
                        nxt, pending = self.unwind_to(body, unw, p, pending)
                        break
                    if ret is None:
                        raise Unsupported('diverging call %s returned' % callee)
                    if dst is not None:
                        if not dst.projs:
                            fobj.value[dst.local] = val
                        else:
                            ptr, _ = self.place_ptr(fr, dst)
                            self.write(ptr, val)
                    nxt = ret
                    break
                if k == 'drop':
                    _, pl, ret, unw = st
                    ptr, ty = self.place_ptr(fr, pl)
                    try:
                        self.drop_in_place(ptr, ty, fr)
                    except Panic as p:
                        nxt, pending = self.unwind_to(body, unw, p, pending)
                        break
                    nxt = ret
                    break
                if k == 'assert':
                    _, neg, cop, msg, ret, unw = st
                    c = self.operand(fr, cop)
                    if neg:
                        c = s_not(c)
                    if self.branch(c):
                        nxt = ret
                    else:
                        p = Panic('assertion failed: ' + msg, body.name)
                        try:
                            nxt, pending = self.unwind_to(body, unw, p, pending)
                        except Panic:
                            raise
                    break
                if k == 'resume':
                    if pending is None:
                        raise Unsupported('resume without panic')
                    raise pending
                if k == 'unreachable':
                    raise Unsupported('reached `unreachable` in %s bb%d' % (body.name, bb))
                if k == 'terminate':
                    raise Abort('terminate in cleanup')
                raise Unsupported('statement %r in %s' % (st, body.name))
            if nxt is None:
                raise Unsupported('block without terminator in %s bb%d' % (body.name, bb))
            bb = nxt

    def unwind_to(self, body, unw, p, pending):
        k = unw[0]
        if k == 'continue':
            raise p
        if k == 'bb':
            if pending is not None:
                raise Abort('panic while unwinding')
            return unw[1], p
        if k == 'maybe':
            if body.blocks[unw[1]]['cleanup']:
                return unw[1], p
            raise Unsupported('ambiguous call target')
        if k == 'terminate':
            raise Abort('panic in cleanup (unwind terminate)')
        if k == 'unreachable':
            raise Unsupported('unwind unreachable taken')
        raise Unsupported('unwind %r' % (unw,))

    def switch(self, v, arms, other):
        if isinstance(v, bool):
            v = 1 if v else 0
        if is_sym(v):
            if z3.is_bool(v):
                t = self.branch(v)
                v = 1 if t else 0
            else:
                for val, bb in arms:
                    if self.branch(v == z3.BitVecVal(val & MASK, 64)):
                        return bb
                if other is None:
                    raise Unsupported('switch fallthrough')
                return other
        if not isinstance(v, int):
            raise Unsupported('switchInt on %r' % (v,))
        for val, bb in arms:
            if (val & MASK) == (v & MASK):
                return bb
        if other is None:
            raise Unsupported('switch without otherwise and no match')
        return other

    # ---------------------------------------------------------------- calls
    def resolve_local(self, callee, fr):
        """-> (body, self_ty) or None"""
        key, self_ty, gen = norm_callee(callee)
        P = self.P
        m = re.match(r'^<(.*) as (\w+)>::(\w+)$', key)
        if m:
            sh, tr, meth = m.group(1), m.group(2), m.group(3)
            st = self_ty
            if sh == 'Self':
                if fr is None or fr.self_ty is None:
                    raise Unsupported('Self call without context: %s' % callee)
                st = fr.self_ty
                sh = type_head_name(st)
            if tr == 'From':
                mt = re.search(r' as (?:core::convert::)?From<(.*)>>::', callee)
                if mt:
                    b = P.methods.get((sh, 'From<%s>' % type_head_name(mt.group(1)), meth))
                    if b is not None:
                        return b, st
            b = P.methods.get((sh, tr, meth))
            if b is not None:
                return b, st
            b = P.free.get('%s::%s' % (tr, meth))
            if b is not None and tr in P.local_traits:
                return b, st
            return None
        full = strip_generics(callee).split('::')
        if len(full) == 1 and full[0] in P.free:
            return P.free[full[0]], None
        if len(full) == 2 and full[0] in P.modules and full[1] in P.free:
            return P.free[full[1]], None
        if len(full) >= 2:
            b = P.methods.get((full[-2], None, full[-1]))
            if b is not None:
                return b, self_ty
        mm = re.search(r'<impl (.*)>::(\w+)(::<.*>)?$', callee)
        if mm:
            b = P.methods.get((type_head_name(mm.group(1)), None, mm.group(2)))
            if b is not None:
                return b, mm.group(1)
        return None

    def invoke(self, callee, args, fr):
        if self.trace_calls:
            print('  ' * self.depth + callee, file=sys.stderr)
        r = self.resolve_local(callee, fr)
        if r is not None:
            return self.run_body(r[0], args, r[1])
        key, self_ty, gen = norm_callee(callee)
        f = self.S.get(key)
        if f is None:
            m = re.match(r'^<(.*) as (\w+)>::(\w+)$', key)
            if m:
                f = self.S.get('<* as %s>::%s' % (m.group(2), m.group(3)))
                if f is None and m.group(1) == 'T':
                    f = self.S.get('<T as *>::*')
        if f is None:
            raise Unsupported('no MIR body or summary for callee %s  (key %s)' % (callee, key))
        self.summaries_used.add(key)
        self.summary_counts[key] = self.summary_counts.get(key, 0) + 1
        return f(self, args, dict(callee=callee, key=key, self_ty=self_ty, gen=gen, frame=fr))

    def call_closure(self, clos, args):
        """call a closure value or fn item with explicit argument list (first arg = closure itself or &mut to it)"""
        if isinstance(clos, FnItem):
            return self.invoke(clos.name, args, None)
        if isinstance(clos, Ptr):
            cv = self.read(clos)
            cptr = clos
        else:
            cv = clos
            cptr = None
        if isinstance(cv, FnItem):
            return self.invoke(cv.name, args, None)
        if not isinstance(cv, Agg) or not cv.name.startswith('{closure@'):
            raise Unsupported('call of non-closure %r' % (cv,))
        body = self.P.closures.get(cv.name)
        if body is None:
            raise Unsupported('closure body not found: %s' % cv.name)
        a0ty = body.args[0][1]
        if a0ty.startswith('&'):
            if cptr is None:
                cptr = Ptr(self.new_obj('tmp', cv))
            a0 = cptr
        else:
            a0 = cv
        return self.run_body(body, [a0] + list(args), None)

    # ---------------------------------------------------------------- drop glue
    def drop_value(self, val, ty):
        tmp = Ptr(self.new_obj('tmp', val))
        self.drop_in_place(tmp, ty, None)

    def drop_in_place(self, ptr, ty, fr):
        ty = ty.strip()
        h = ty_head(ty)
        hs = last_seg(h)
        if ty.startswith(('&', '*')) or ty in ('usize', 'isize', 'bool', '()', 'u8', '!') or h in ('{closure}',):
            return
        if hs in ('MaybeUninit', 'ManuallyDrop', 'PhantomData', 'NonNull', 'Cell', 'Layout', 'Global', 'Level',
                  'LevelFilter', 'Kind', 'Link', 'WeakInner', 'Arguments', 'Argument', 'GlobalLogger', 'NonZero',
                  'AllocError', 'LayoutError', 'Iter', 'IterMut', 'Range', 'ExtractIf', 'Ordering', 'Infallible', 'Location',
                  'Formatter', 'DebugStruct', 'Entry', 'Error', 'OccupiedEntry', 'VacantEntry', 'RawOccupiedEntryMut'):
            return
        if ty == 'T' or ty == 'Self':
            v = self.read(ptr)
            self.drop_T(v)
            return
        if re.match(r'^[A-Z][A-Za-z0-9]{0,2}$', ty):
            # another generic parameter (e.g. `A: Allocator`): decided by the runtime value
            v = self.read(ptr)
            if isinstance(v, Agg) and v.name in ('Global', 'PhantomData') or isinstance(v, (int, bool, Ptr)):
                return
            if isinstance(v, TVal):
                self.drop_T(v)
                return
            if isinstance(v, Agg) and v.name.startswith('{closure') and all(isinstance(f, (int, bool, Ptr)) for f in v.fields):
                return      # a closure that captured by reference only
            if isinstance(v, FnItem):
                return
            raise Unsupported('drop glue for generic parameter %s holding %r' % (ty, v))
        if hs == 'Rc' and ('rc::Rc' in h or h == 'Rc'):
            b = self.P.methods.get(('Rc', 'Drop', 'drop'))
            if b is None:
                raise Unsupported('no Drop body for Rc')
            self.rc_drop_depth += 1
            self.max_rc_drop_depth = max(self.max_rc_drop_depth, self.rc_drop_depth)
            try:
                self.run_body(b, [ptr], ty)
            finally:
                self.rc_drop_depth -= 1
            return
        if hs == 'Weak' and ('rc::Weak' in h or h == 'Weak'):
            b = self.P.methods.get(('Weak', 'Drop', 'drop'))
            if b is None:
                raise Unsupported('no Drop body for Weak')
            self.run_body(b, [ptr], ty)
            return
        if hs in ('Ref', 'RefMut'):
            g = self.read(ptr)
            cell = g.fields[0]
            rc = self.read(cell)
            if rc is UNINIT or not isinstance(rc, Agg):
                raise UB('uninit-read', 'release of a borrow on a moved-out RefCell')
            flag = rc.fields[0]
            nf = 0 if hs == 'RefMut' else flag - 1
            self.write(cell.field(0), nf)
            return
        if hs in ('HashMap', 'HashSet'):
            v = self.read(ptr)
            self.free_container(v)
            return
        if hs == 'IntoIter':
            v = self.read(ptr)
            if isinstance(v, Agg) and v.name == 'VecIntoIter':
                o = self.heap[v.fields[0]]
                ety = ty_args(ty)[0] if ty_args(ty) else 'T'
                first = None
                for x in o.value[v.fields[1]:]:
                    if x is UNINIT:
                        continue
                    try:
                        self.drop_value(x, ety)
                    except Panic as p:
                        if first is not None:
                            raise Abort('second panic while dropping the rest of a vec::IntoIter')
                        first = p
                if not o.live:
                    raise UB('double-free', 'Vec buffer released twice')
                o.live = False
                self.events.append(('free', 'vec', v.fields[0]))
                if first is not None:
                    raise first
                return
            self.free_container(Own(v.fields[0]))
            return
        if hs in ('Map', 'Filter'):
            v = self.read(ptr)
            inner_ty = ty_args(ty)[0]
            self.drop_value(v.fields[0], inner_ty)
            return
        if hs == 'Links':
            v = self.read(ptr)
            if v is UNINIT:
                raise UB('uninit-read', 'drop of moved-out Links')
            if isinstance(v.fields[0], Own) or 'Links' not in self.P.src.structs:
                self.free_container(v.fields[0])
                return
            # otherwise: the generic struct glue below (fields by their declared types)
        if hs == 'RefCell':
            v = self.read(ptr)
            if v is UNINIT:
                raise UB('uninit-read', 'drop of moved-out RefCell')
            self.drop_value(v.fields[1], ty_args(ty)[0])
            return
        if hs == 'Option':
            v = self.read(ptr)
            if v.variant == 'Some':
                self.drop_value(v.fields[0], ty_args(ty)[0])
            return
        if hs == 'Result':
            v = self.read(ptr)
            a = ty_args(ty)
            self.drop_value(v.fields[0], a[0] if v.variant == 'Ok' else a[1])
            return
        if hs == 'ControlFlow':
            v = self.read(ptr)
            a = ty_args(ty)
            if v.fields:
                self.drop_value(v.fields[0], a[1] if v.variant == 'Continue' and len(a) > 1 else a[0])
            return
        if ty.startswith('('):
            v = self.read(ptr)
            parts = split_top(ty[1:-1])
            first = None
            for i, pt in enumerate(parts):
                try:
                    self.drop_value(v.fields[i], pt)
                except Panic as p:
                    if first is not None:
                        raise Abort('second panic while dropping tuple fields')
                    first = p
            if first is not None:
                raise first
            return
        if ty.startswith('['):
            v = self.read(ptr)
            ety = ty[1:scan_balanced(ty, 1, ';')]
            for x in v.fields:
                self.drop_value(x, ety)
            return
        if hs in ('Vec', 'VecDeque'):
            v = self.read(ptr)
            if not isinstance(v, Own):
                raise Unsupported('drop of Vec value %r' % (v,))
            o = self.heap[v.obj]
            if not o.live:
                raise UB('double-free', 'Vec dropped twice')
            ety = ty_args(ty)[0]
            first = None
            # drop_in_place::<[T]> continues with the remaining elements after a panic
            for x in list(o.value):
                try:
                    self.drop_value(x, ety)
                except Panic as p:
                    if first is not None:
                        raise Abort('second panic while dropping Vec elements')
                    first = p
            o.live = False
            self.events.append(('free', 'vec', v.obj))
            if first is not None:
                raise first
            return
        if hs == 'Box':
            v = self.read(ptr)
            inner = ty_args(ty)[0]
            o = self.obj_of(v)
            self.drop_in_place(v, inner, fr)
            o.live = False
            self.events.append(('free', 'box', v.obj))
            return
        if hs == 'Pin':
            self.drop_in_place(ptr, ty_args(ty)[0], fr)
            return
        # a struct defined in the crate itself: its Drop impl (if any), then its fields in declaration order
        if hs in self.P.src.structs and hs not in ('Rc', 'Weak', 'RcBox'):
            b = self.P.methods.get((hs, 'Drop', 'drop'))
            first = None
            if b is not None:
                try:
                    self.run_body(b, [ptr], ty)
                except Panic as p:
                    first = p
            for k, (fn, ft) in enumerate(self.P.src.structs[hs]):
                try:
                    self.drop_in_place(ptr.field(k), ft, fr)
                except Panic as p:
                    if first is not None:
                        raise Abort('second panic while dropping the fields of %s' % hs)
                    first = p
            if first is not None:
                raise first
            return
        raise Unsupported('drop glue for type %s' % ty)

    def free_container(self, v):
        if v is UNINIT:
            raise UB('uninit-read', 'drop of moved-out container')
        if not isinstance(v, Own):
            raise Unsupported('free of %r' % (v,))
        o = self.heap[v.obj]
        if not o.live:
            raise UB('double-free', 'container #%d dropped twice' % v.obj)
        o.live = False
        self.events.append(('free', o.kind, v.obj))

    def drop_T(self, v):
        if v is UNINIT:
            raise UB('uninit-read', 'destructor run on a moved-out value')
        if self.hooks is None:
            raise Unsupported('drop of T without driver')
        self.hooks.drop_T(self, v)

    # ---------------------------------------------------------------- maps
    def key_eq(self, a, b):
        """key equality decided by the crate's own `<Link as PartialEq>::eq` MIR"""
        ck = (a, b)
        r = self.eq_cache.get(ck)
        if r is not None:
            return r
        if isinstance(a, Agg) and a.name == 'Link':
            body = self.P.methods.get(('Link', 'PartialEq', 'eq'))
            if body is None:
                raise Unsupported('no PartialEq body for Link')
            pa = Ptr(self.new_obj('tmp', a))
            pb = Ptr(self.new_obj('tmp', b))
            r = self.run_body(body, [pa, pb], None)
            if not isinstance(r, bool):
                raise Unsupported('symbolic key equality')
        else:
            r = (a == b)
        self.eq_cache[ck] = r
        return r

    def map_find(self, md, key):
        for k in md.keys:
            if k is key or self.key_eq(k, key):
                return k
        return None

    def map_of(self, v):
        """v: Own or Ptr to a place holding Own -> (obj id, MapData)"""
        if isinstance(v, Ptr):
            v = self.read(v)
        if v is UNINIT:
            raise UB('uninit-read', 'use of moved-out table')
        if isinstance(v, Agg) and v.name == 'Links':
            v = v.fields[0]
        if not isinstance(v, Own):
            raise Unsupported('expected map, got %r' % (v,))
        o = self.heap[v.obj]
        if not o.live:
            raise UB('use-after-free', 'use of dropped table #%d' % v.obj)
        return v.obj, o.value

    def iter_keys(self, obj_id, md):
        """iteration order of a table = storage order, permuted by the path's layout"""
        keys = list(md.keys)
        if self.layout is not None and len(keys) > 1:
            keys = self.layout.order(self, obj_id, keys)
        return keys
