//! Native runner: interprets the /verif script language against the real
//! cactusref build (real hashbrown, real allocator). Used for translator
//! validation (trace must equal the MIR executor's trace) and for replay of
//! counterexamples (also under Miri).
#[cfg(not(feature = "stdrc"))]
use cactusref::{Adopt, Rc, Weak};
#[cfg(feature = "stdrc")]
use std::rc::{Rc, Weak};
use std::alloc::{GlobalAlloc, Layout, System};
use std::cell::{Cell, RefCell};
use std::collections::HashMap;
use std::panic::{catch_unwind, AssertUnwindSafe};
use std::sync::atomic::{AtomicIsize, AtomicUsize, Ordering};

struct Counting;
static LIVE_BLOCKS: AtomicIsize = AtomicIsize::new(0);
static LIVE_BYTES: AtomicIsize = AtomicIsize::new(0);
static ALLOCS: AtomicUsize = AtomicUsize::new(0);
static EAGER: AtomicUsize = AtomicUsize::new(0);

unsafe impl GlobalAlloc for Counting {
    unsafe fn alloc(&self, l: Layout) -> *mut u8 {
        LIVE_BLOCKS.fetch_add(1, Ordering::Relaxed);
        LIVE_BYTES.fetch_add(l.size() as isize, Ordering::Relaxed);
        ALLOCS.fetch_add(1, Ordering::Relaxed);
        System.alloc(l)
    }
    unsafe fn dealloc(&self, p: *mut u8, l: Layout) {
        LIVE_BLOCKS.fetch_sub(1, Ordering::Relaxed);
        LIVE_BYTES.fetch_sub(l.size() as isize, Ordering::Relaxed);
        System.dealloc(p, l)
    }
    unsafe fn realloc(&self, p: *mut u8, l: Layout, new: usize) -> *mut u8 {
        LIVE_BYTES.fetch_add(new as isize - l.size() as isize, Ordering::Relaxed);
        ALLOCS.fetch_add(1, Ordering::Relaxed);
        System.realloc(p, l, new)
    }
}

#[global_allocator]
static A: Counting = Counting;

const ALIVE: u64 = 0xA11C_5EED_0BAD_F00D;
const DEAD: u64 = 0xDEAD_DEAD_DEAD_DEAD;

struct Node {
    // over-aligned on purpose (align 16): code that assumes the payload sits at the same offset for every T is exposed
    _align: u128,
    id: usize,
    canary: Cell<u64>,
    strong: RefCell<Vec<Rc<Node>>>,
    weak: RefCell<Vec<Weak<Node>>>,
}

impl PartialEq for Node {
    fn eq(&self, o: &Node) -> bool {
        out(format!("tcmp eq {} {}", self.id, o.id));
        self.id == o.id
    }
    #[allow(clippy::partialeq_ne_impl)]
    fn ne(&self, o: &Node) -> bool {
        out(format!("tcmp ne {} {}", self.id, o.id));
        self.id != o.id
    }
}
impl Eq for Node {}
impl PartialOrd for Node {
    fn partial_cmp(&self, o: &Node) -> Option<std::cmp::Ordering> {
        out(format!("tcmp partial_cmp {} {}", self.id, o.id));
        Some(self.id.cmp(&o.id))
    }
    fn lt(&self, o: &Node) -> bool {
        out(format!("tcmp lt {} {}", self.id, o.id));
        self.id < o.id
    }
    fn le(&self, o: &Node) -> bool {
        out(format!("tcmp le {} {}", self.id, o.id));
        self.id <= o.id
    }
    fn gt(&self, o: &Node) -> bool {
        out(format!("tcmp gt {} {}", self.id, o.id));
        self.id > o.id
    }
    fn ge(&self, o: &Node) -> bool {
        out(format!("tcmp ge {} {}", self.id, o.id));
        self.id >= o.id
    }
}
impl Ord for Node {
    fn cmp(&self, o: &Node) -> std::cmp::Ordering {
        out(format!("tcmp cmp {} {}", self.id, o.id));
        self.id.cmp(&o.id)
    }
}

thread_local! {
    static THASH: RefCell<Vec<usize>> = const { RefCell::new(Vec::new()) };
}

impl std::hash::Hash for Node {
    fn hash<H: std::hash::Hasher>(&self, st: &mut H) {
        THASH.with(|c| c.borrow_mut().push(self.id));
        st.write_u64(self.id as u64);
    }
}

/// counts the bytes fed to it: everything beyond the 8 bytes per `Node::hash` call is "extra"
struct RecHasher(usize);
impl std::hash::Hasher for RecHasher {
    fn finish(&self) -> u64 {
        0
    }
    fn write(&mut self, b: &[u8]) {
        self.0 += b.len();
    }
}

impl std::fmt::Display for Node {
    fn fmt(&self, f: &mut std::fmt::Formatter<'_>) -> std::fmt::Result {
        f.pad(&format!("node{}", self.id))
    }
}

impl std::fmt::Debug for Node {
    fn fmt(&self, f: &mut std::fmt::Formatter<'_>) -> std::fmt::Result {
        f.pad(&format!("Node({})", self.id))
    }
}

impl Clone for Node {
    fn clone(&self) -> Node {
        out(format!("tclone {}", self.id));
        let id = ST.with(|s| {
            let mut s = s.borrow_mut();
            let id = s.next_pid;
            s.next_pid += 1;
            id
        });
        if ST.with(|s| s.borrow().clone_panics) {
            panic!("T::clone panicked (script)");
        }
        let unlinked = ST.with(|s| s.borrow().clone_unlinked);
        Node {
            _align: 0,
            id,
            canary: Cell::new(ALIVE),
            strong: RefCell::new(if unlinked { vec![] } else { self.strong.borrow().iter().cloned().collect() }),
            weak: RefCell::new(if unlinked { vec![] } else { self.weak.borrow().iter().cloned().collect() }),
        }
    }
}

impl Drop for Node {
    fn drop(&mut self) {
        out(format!("dtor {}", self.id));
        if self.canary.get() != ALIVE {
            out(format!("CANARY-BAD {} {:x}", self.id, self.canary.get()));
        }
        self.canary.set(DEAD);
        let (ops, pan) = ST.with(|s| {
            let s = s.borrow();
            (s.ondrop.get(&self.id).cloned().unwrap_or_default(), s.ondrop_panic.contains(&self.id))
        });
        DTORS.with(|d| d.borrow_mut().push(self as *const Node));
        struct Pop;
        impl Drop for Pop {
            fn drop(&mut self) {
                DTORS.with(|d| { d.borrow_mut().pop(); });
            }
        }
        let _pop = Pop;
        for op in &ops {
            run_op(op, true);
        }
        if pan {
            panic!("scripted destructor panic of {}", self.id);
        }
    }
}

#[derive(Clone, Debug)]
enum Op {
    Simple(Vec<String>),
    OnDrop(usize, Vec<Op>),
    Catch(Vec<Op>),
}

enum H {
    Rc(Rc<Node>),
    Weak(Weak<Node>),
    Raw(*const Node, bool),
    WRaw(*const Node),
    Val(Node),
}

#[derive(Default)]
struct State {
    handles: HashMap<String, H>,
    extras: HashMap<usize, Vec<Rc<Node>>>,
    wextras: HashMap<usize, Vec<Weak<Node>>>,
    ondrop: HashMap<usize, Vec<Op>>,
    ondrop_panic: Vec<usize>,
    next_pid: usize,
    junk: Vec<Vec<u8>>,
    seed: u64,
    addr2obj: HashMap<usize, usize>,
    clone_unlinked: bool,
    clone_panics: bool,
}

thread_local! {
    static DTORS: RefCell<Vec<*const Node>> = RefCell::new(Vec::new());
    static ST: RefCell<State> = RefCell::new(State { next_pid: 1000, ..Default::default() });
    static OUT: RefCell<Vec<String>> = RefCell::new(Vec::new());
}

fn out(s: String) {
    // every observation is also written out at once ("> " prefix) so that the part of the trace that precedes a
    // crash or abort is not lost; the complete block is printed again when the script ends
    if EAGER.load(Ordering::Relaxed) != 0 {
        use std::io::Write;
        let so = std::io::stdout();
        let mut l = so.lock();
        let _ = writeln!(l, "> {}", s);
        let _ = l.flush();
    }
    OUT.with(|o| o.borrow_mut().push(s));
}

fn take(name: &str) -> H {
    ST.with(|s| s.borrow_mut().handles.remove(name)).unwrap_or_else(|| panic!("SCRIPT: unknown handle {}", name))
}

fn put(name: &str, h: H) {
    ST.with(|s| {
        if s.borrow_mut().handles.insert(name.to_string(), h).is_some() {
            panic!("SCRIPT: handle {} exists", name);
        }
    });
}

fn cur_node() -> *const Node {
    DTORS.with(|d| *d.borrow().last().expect("SCRIPT: slot reference outside a destructor"))
}

fn with_rc<R>(name: &str, f: impl FnOnce(&Rc<Node>) -> R) -> R {
    if let Some(k) = name.strip_prefix('@') {
        // k-th strong slot of the value whose destructor is running
        let n = unsafe { &*cur_node() };
        let p: *const Rc<Node> = &n.strong.borrow()[num(k)] as *const Rc<Node>;
        return f(unsafe { &*p });
    }
    // The handle stays in the table while `f` runs (re-entrant ops from destructors may look it up),
    // so hand out a raw pointer to it.
    let p: *const Rc<Node> = ST.with(|s| match s.borrow().handles.get(name) {
        Some(H::Rc(r)) => r as *const Rc<Node>,
        _ => panic!("SCRIPT: {} is not a strong handle", name),
    });
    // SAFETY: single-threaded; the entry is not removed while f runs by construction of the scripts.
    f(unsafe { &*p })
}

fn with_rc_mut<R>(name: &str, f: impl FnOnce(&mut Rc<Node>) -> R) -> R {
    let p: *mut Rc<Node> = ST.with(|s| match s.borrow_mut().handles.get_mut(name) {
        Some(H::Rc(r)) => r as *mut Rc<Node>,
        _ => panic!("SCRIPT: {} is not a strong handle", name),
    });
    f(unsafe { &mut *p })
}

fn with_weak<R>(name: &str, f: impl FnOnce(&Weak<Node>) -> R) -> R {
    if let Some(k) = name.strip_prefix('^') {
        let n = unsafe { &*cur_node() };
        let p: *const Weak<Node> = &n.weak.borrow()[num(k)] as *const Weak<Node>;
        return f(unsafe { &*p });
    }
    let p: *const Weak<Node> = ST.with(|s| match s.borrow().handles.get(name) {
        Some(H::Weak(r)) => r as *const Weak<Node>,
        _ => panic!("SCRIPT: {} is not a weak handle", name),
    });
    f(unsafe { &*p })
}

fn junk() {
    // layout perturbation: seeded junk allocations so that addresses (and FxHash orders) change
    ST.with(|s| {
        let mut s = s.borrow_mut();
        if s.seed != 0 {
            s.seed = s.seed.wrapping_mul(6364136223846793005).wrapping_add(1442695040888963407);
            let n = ((s.seed >> 33) % 7) as usize;
            for i in 0..n {
                let sz = 8 + (((s.seed >> (13 + i)) % 37) as usize) * 8;
                s.junk.push(vec![0u8; sz]);
            }
        }
    });
}

fn num(s: &str) -> usize {
    s.parse().unwrap_or_else(|_| panic!("SCRIPT: bad number {}", s))
}

fn run_op(op: &Op, _in_dtor: bool) {
    match op {
        Op::OnDrop(obj, ops) => {
            ST.with(|s| s.borrow_mut().ondrop.entry(*obj).or_default().extend(ops.iter().cloned()));
        }
        Op::Catch(ops) => {
            let r = catch_unwind(AssertUnwindSafe(|| {
                for o in ops {
                    run_op(o, _in_dtor);
                }
            }));
            out(format!("ret catch {}", if r.is_ok() { "ok" } else { "panicked" }));
        }
        Op::Simple(w) => {
            let a: Vec<&str> = w.iter().map(|s| s.as_str()).collect();
            match a[0] {
                "new" => {
                    junk();
                    let id = num(a[1]);
                    let r = Rc::new(Node { _align: 0, id, canary: Cell::new(ALIVE), strong: RefCell::new(vec![]), weak: RefCell::new(vec![]) });
                    ST.with(|s| s.borrow_mut().addr2obj.insert(Rc::as_ptr(&r) as usize, id));
                    put(a[2], H::Rc(r));
                }
                #[cfg(not(feature = "stdrc"))]
                "links" => {
                    let v = with_rc(a[1], |r| Rc::__verif_links(r));
                    let mut items: Vec<String> = ST.with(|s| {
                        let s = s.borrow();
                        v.iter()
                            .map(|(p, k, c)| {
                                let o = s.addr2obj.get(&(*p as usize)).map(|x| x.to_string()).unwrap_or("?".to_string());
                                format!("{}{}={}", ["F", "B", "L"][*k as usize], o, c)
                            })
                            .collect()
                    });
                    items.sort();
                    out(format!("ret links {}", if items.is_empty() { "-".to_string() } else { items.join(",") }));
                }
                "new_from" | "new_from_box" => {
                    junk();
                    let id = num(a[1]);
                    let n = Node { _align: 0, id, canary: Cell::new(ALIVE), strong: RefCell::new(vec![]), weak: RefCell::new(vec![]) };
                    let r: Rc<Node> = if a[0] == "new_from" { Rc::from(n) } else { Rc::from(Box::new(n)) };
                    put(a[2], H::Rc(r));
                }
                "eq" | "ne" | "lt" | "le" | "gt" | "ge" | "cmp" | "partial_cmp" => {
                    let s = with_rc(a[1], |x| with_rc(a[2], |y| match a[0] {
                        "eq" => (x == y).to_string(),
                        "ne" => (x != y).to_string(),
                        "lt" => (x < y).to_string(),
                        "le" => (x <= y).to_string(),
                        "gt" => (x > y).to_string(),
                        "ge" => (x >= y).to_string(),
                        "cmp" => format!("{:?}", x.cmp(y)),
                        _ => format!("{:?}", x.partial_cmp(y).unwrap()),
                    }));
                    out(format!("ret {} {}", a[0], s));
                }
                "clone" => {
                    let r = with_rc(a[1], |r| Rc::clone(r));
                    put(a[2], H::Rc(r));
                }
                "drop" => {
                    let h = take(a[1]);
                    drop(h_rc(h));
                }
                "drop_via_raw" => {
                    let h = take(a[1]);
                    let p = Rc::into_raw(h_rc(h));
                    unsafe { Rc::decrement_strong_count(p) };
                }
                "cost_clone" => {
                    let (r, d) = with_rc(a[1], |r| {
                        let a0 = ALLOCS.load(Ordering::Relaxed);
                        let c = Rc::clone(r);
                        (c, ALLOCS.load(Ordering::Relaxed) - a0)
                    });
                    out(format!("ret cost_clone {}", d));
                    put(a[2], H::Rc(r));
                }
                "cost_drop" => {
                    let h = h_rc(take(a[1]));
                    let a0 = ALLOCS.load(Ordering::Relaxed);
                    drop(h);
                    let d = ALLOCS.load(Ordering::Relaxed) - a0;
                    out(format!("ret cost_drop {}", d));
                }
                "drop_any" => {
                    match take(a[1]) {
                        H::Rc(r) => drop(r),
                        H::Val(v) => drop(v),
                        H::Weak(w) => drop(w),
                        _ => panic!("SCRIPT: cannot drop raw"),
                    }
                }
                "clone_mode" => ST.with(|s| {
                    let mut s = s.borrow_mut();
                    s.clone_unlinked = a[1] == "unlinked";
                    s.clone_panics = a[1] == "panic";
                }),
                "drop_if" => {
                    let h = ST.with(|s| s.borrow_mut().handles.remove(a[1]));
                    if let Some(h) = h {
                        drop(h_rc(h));
                    }
                }
                "extras" => {
                    let n = num(a[2]);
                    for _ in 0..n {
                        let (r, id) = with_rc(a[1], |r| (Rc::clone(r), r.id));
                        ST.with(|s| s.borrow_mut().extras.entry(id).or_default().push(r));
                    }
                }
                "drop_extra" => {
                    let id = num(a[1]);
                    let r = ST.with(|s| s.borrow_mut().extras.get_mut(&id).and_then(|v| v.pop())).expect("SCRIPT: no extra");
                    drop(r);
                }
                "wextras" => {
                    let n = num(a[2]);
                    for _ in 0..n {
                        let (w, id) = with_rc(a[1], |r| (Rc::downgrade(r), r.id));
                        ST.with(|s| s.borrow_mut().wextras.entry(id).or_default().push(w));
                    }
                }
                "drop_wextra" => {
                    let id = num(a[1]);
                    let r = ST.with(|s| s.borrow_mut().wextras.get_mut(&id).and_then(|v| v.pop())).expect("SCRIPT: no wextra");
                    drop(r);
                }
                "drop_all_wextras" => {
                    let id = num(a[1]);
                    let v = ST.with(|s| s.borrow_mut().wextras.remove(&id)).unwrap_or_default();
                    drop(v);
                }
                "store" => {
                    let h = h_rc(take(a[2]));
                    with_rc(a[1], |o| o.strong.borrow_mut().push(h));
                }
                "take" => {
                    let k = num(a[2]);
                    let h = with_rc(a[1], |o| o.strong.borrow_mut().remove(k));
                    put(a[3], H::Rc(h));
                }
                "store_weak" => {
                    let w = match take(a[2]) { H::Weak(w) => w, _ => panic!("SCRIPT: not weak") };
                    with_rc(a[1], |o| o.weak.borrow_mut().push(w));
                }
                "self_take" => {
                    let n = unsafe { &*cur_node() };
                    let h = n.strong.borrow_mut().remove(num(a[1]));
                    put(a[2], H::Rc(h));
                }
                "self_take_weak" => {
                    let n = unsafe { &*cur_node() };
                    let w = n.weak.borrow_mut().remove(num(a[1]));
                    put(a[2], H::Weak(w));
                }
                "take_weak" => {
                    let k = num(a[2]);
                    let w = with_rc(a[1], |o| o.weak.borrow_mut().remove(k));
                    put(a[3], H::Weak(w));
                }
                #[cfg(not(feature = "stdrc"))]
                "adopt" => {
                    if a[1] == a[2] {
                        with_rc(a[1], |x| unsafe { Rc::adopt_unchecked(x, x) });
                    } else {
                        with_rc(a[1], |x| with_rc(a[2], |y| unsafe { Rc::adopt_unchecked(x, y) }));
                    }
                }
                #[cfg(not(feature = "stdrc"))]
                "unadopt" => {
                    if a[1] == a[2] {
                        with_rc(a[1], |x| Rc::unadopt(x, x));
                    } else {
                        with_rc(a[1], |x| with_rc(a[2], |y| Rc::unadopt(x, y)));
                    }
                }
                "downgrade" => {
                    let w = with_rc(a[1], |r| Rc::downgrade(r));
                    put(a[2], H::Weak(w));
                }
                "weak_new" => put(a[1], H::Weak(Weak::new())),
                "upgrade_if" | "wdrop_if" => {
                    let present = ST.with(|s| s.borrow().handles.contains_key(a[1]));
                    if present {
                        if a[0] == "upgrade_if" {
                            match with_weak(a[1], |w| w.upgrade()) {
                                Some(h) => {
                                    out("ret upgrade some".to_string());
                                    drop(h);
                                }
                                None => out("ret upgrade none".to_string()),
                            }
                        } else {
                            match take(a[1]) { H::Weak(w) => drop(w), _ => panic!("SCRIPT: not weak") }
                        }
                    }
                }
                "upgrade" => {
                    let r = with_weak(a[1], |w| w.upgrade());
                    match r {
                        Some(h) => {
                            out("ret upgrade some".to_string());
                            if a.len() > 2 && a[2] != "-" {
                                put(a[2], H::Rc(h));
                            } else {
                                drop(h);
                            }
                        }
                        None => out("ret upgrade none".to_string()),
                    }
                }
                "wclone" => {
                    let w = with_weak(a[1], |w| w.clone());
                    put(a[2], H::Weak(w));
                }
                "wdrop" => {
                    let h = take(a[1]);
                    match h { H::Weak(w) => drop(w), _ => panic!("SCRIPT: not weak") }
                }
                "strong_count" => out(format!("ret strong_count {}", with_rc(a[1], |r| Rc::strong_count(r)))),
                "weak_count" => out(format!("ret weak_count {}", with_rc(a[1], |r| Rc::weak_count(r)))),
                "hash" => {
                    use std::hash::Hash;
                    THASH.with(|c| c.borrow_mut().clear());
                    let mut rh = RecHasher(0);
                    with_rc(a[1], |r| r.hash(&mut rh));
                    let ids: Vec<String> = THASH.with(|c| c.borrow().iter().map(|i| i.to_string()).collect());
                    let extra = rh.0 as isize - 8 * ids.len() as isize;
                    out(format!("ret hash thash={},extra={},ids={}", ids.len(), if extra == 0 { 0 } else { 1.max(extra / 8) }, if ids.is_empty() { "-".to_string() } else { ids.join("+") }));
                }
                "fmt_display" => {
                    // the caller's format spec must reach T's formatter: compare a padded rendering with T's own
                    let (t, dropped) = with_rc(a[1], |r| (format!("{}", r), format!("{:*>14.5}", r) != format!("{:*>14.5}", **r)));
                    out(format!("ret fmt_display {}{}:ok", t.replace(' ', "_"), if dropped { "[spec-dropped]" } else { "" }));
                }
                "fmt_debug" => {
                    let (t, dropped) = with_rc(a[1], |r| (format!("{:?}", r), format!("{:*>14?}", r) != format!("{:*>14?}", **r)));
                    out(format!("ret fmt_debug {}{}:ok", t.replace(' ', "_"), if dropped { "[spec-dropped]" } else { "" }));
                }
                "fmt_pointer" => {
                    let same = with_rc(a[1], |r| format!("{:p}", *r) == format!("{:p}", &**r as *const Node));
                    out(format!("ret fmt_pointer {}:ok", if same { "<ptr:value-of-self>" } else { "<ptr:other>" }));
                }
                "wfmt_debug" => out(format!("ret wfmt_debug {}:ok", with_weak(a[1], |w| format!("{:?}", w)).replace(' ', "_"))),
                "w_strong_count" => out(format!("ret w_strong_count {}", with_weak(a[1], |w| w.strong_count()))),
                "w_weak_count" => out(format!("ret w_weak_count {}", with_weak(a[1], |w| w.weak_count()))),
                "ptr_eq" => out(format!("ret ptr_eq {}", with_rc(a[1], |x| with_rc(a[2], |y| Rc::ptr_eq(x, y))))),
                "w_ptr_eq" => out(format!("ret w_ptr_eq {}", with_weak(a[1], |x| with_weak(a[2], |y| x.ptr_eq(y))))),
                "deref" => {
                    let (id, c) = with_rc(a[1], |r| (r.id, r.canary.get()));
                    if c != ALIVE {
                        out(format!("CANARY-BAD {} {:x}", id, c));
                    }
                    out(format!("ret deref {}", id));
                }
                "try_unwrap" => {
                    let h = h_rc(take(a[1]));
                    match Rc::try_unwrap(h) {
                        Ok(v) => {
                            out("ret try_unwrap ok".to_string());
                            put(a[2], H::Val(v));
                        }
                        Err(h) => {
                            out("ret try_unwrap err".to_string());
                            put(a[2], H::Rc(h));
                        }
                    }
                }
                "drop_value" => {
                    let h = take(a[1]);
                    match h { H::Val(v) => drop(v), _ => panic!("SCRIPT: not a value") }
                }
                "get_mut" => {
                    let r = with_rc_mut(a[1], |r| Rc::get_mut(r).map(|n| n.id));
                    match r {
                        Some(id) => {
                            out("ret get_mut some".to_string());
                            out(format!("ret get_mut {}", id));
                        }
                        None => out("ret get_mut none".to_string()),
                    }
                }
                "make_mut" => {
                    let (before, oldid) = with_rc(a[1], |r| (Rc::as_ptr(r), r.id));
                    let newid = with_rc_mut(a[1], |r| Rc::make_mut(r).id);
                    let after = with_rc(a[1], |r| Rc::as_ptr(r));
                    let what = if before == after { "inplace" } else if newid == oldid { "moved" } else { "cloned" };
                    out(format!("ret make_mut {}", what));
                }
                "into_raw" => {
                    let h = h_rc(take(a[1]));
                    put(a[2], H::Raw(Rc::into_raw(h), true));
                }
                "as_ptr" => {
                    let p = with_rc(a[1], |r| Rc::as_ptr(r));
                    put(a[2], H::Raw(p, false));
                }
                "from_raw" => {
                    let p = match take(a[1]) { H::Raw(p, _) => p, _ => panic!("SCRIPT: not raw") };
                    put(a[2], H::Rc(unsafe { Rc::from_raw(p) }));
                }
                "inc_strong" => {
                    let p = ST.with(|s| match s.borrow().handles.get(a[1]) { Some(H::Raw(p, _)) => *p, _ => panic!("SCRIPT: not raw") });
                    unsafe { Rc::increment_strong_count(p) };
                }
                "dec_strong" => {
                    let p = ST.with(|s| match s.borrow().handles.get(a[1]) { Some(H::Raw(p, _)) => *p, _ => panic!("SCRIPT: not raw") });
                    unsafe { Rc::decrement_strong_count(p) };
                }
                "w_into_raw" => {
                    let w = match take(a[1]) { H::Weak(w) => w, _ => panic!("SCRIPT: not weak") };
                    put(a[2], H::WRaw(w.into_raw()));
                }
                "w_from_raw" => {
                    let p = match take(a[1]) { H::WRaw(p) => p, _ => panic!("SCRIPT: not wraw") };
                    put(a[2], H::Weak(unsafe { Weak::from_raw(p) }));
                }
                "on_drop_panic" => ST.with(|s| s.borrow_mut().ondrop_panic.push(num(a[1]))),
                "note" => {}
                x => panic!("SCRIPT: unknown op {}", x),
            }
        }
    }
}

fn h_rc(h: H) -> Rc<Node> {
    match h {
        H::Rc(r) => r,
        _ => panic!("SCRIPT: not a strong handle"),
    }
}

fn parse(lines: &mut std::iter::Peekable<std::vec::IntoIter<String>>) -> Vec<Op> {
    let mut ops = vec![];
    while let Some(l) = lines.peek() {
        let l = l.trim().to_string();
        if l == "}" {
            lines.next();
            return ops;
        }
        if l.starts_with("===") {
            return ops;
        }
        lines.next();
        if l.is_empty() || l.starts_with('#') {
            continue;
        }
        let w: Vec<String> = l.split_whitespace().map(|s| s.to_string()).collect();
        if w[0] == "on_drop" && w.last().map(|s| s.as_str()) == Some("{") {
            let obj = num(&w[1]);
            let body = parse(lines);
            ops.push(Op::OnDrop(obj, body));
        } else if w[0] == "catch" {
            let body = parse(lines);
            ops.push(Op::Catch(body));
        } else {
            ops.push(Op::Simple(w));
        }
    }
    ops
}

fn run_script(name: String, ops: Vec<Op>, seed: u64) {
    // run in a fresh thread so that thread-local state starts empty
    let t = std::thread::Builder::new().stack_size(16 << 20).spawn(move || {
        ST.with(|s| s.borrow_mut().seed = seed);
        OUT.with(|o| o.borrow_mut().clear());
        let b0 = LIVE_BLOCKS.load(Ordering::Relaxed);
        let a0 = ALLOCS.load(Ordering::Relaxed);
        let r = catch_unwind(AssertUnwindSafe(|| {
            for op in &ops {
                run_op(op, false);
            }
        }));
        if r.is_err() {
            out("uncaught-panic".to_string());
        }
        let lines = OUT.with(|o| std::mem::take(&mut *o.borrow_mut()));
        let st_handles = ST.with(|s| s.borrow().handles.len());
        let extras = ST.with(|s| s.borrow().extras.values().map(|v| v.len()).sum::<usize>() + s.borrow().wextras.values().map(|v| v.len()).sum::<usize>());
        // release the runner's own state (maps, junk, scripts) before measuring; remaining handles are
        // dropped by this too, so the leak figure is only meaningful when handles=0 and extras=0
        let leak_note = if st_handles == 0 && extras == 0 {
            ST.with(|s| { let old = std::mem::take(&mut *s.borrow_mut()); drop(old); });
            DTORS.with(|d| *d.borrow_mut() = Vec::new());
            let own = lines.len() as isize + if lines.capacity() > 0 { 1 } else { 0 };
            format!("end handles=0 leaked_blocks={} allocs={}", LIVE_BLOCKS.load(Ordering::Relaxed) - b0 - own, ALLOCS.load(Ordering::Relaxed) - a0)
        } else {
            format!("end handles={} extras={}", st_handles, extras)
        };
        // drop whatever the script left behind while the thread locals are still alive
        // (destructors log through OUT); a misbehaving teardown must not take the runner down
        let old = ST.with(|s| std::mem::take(&mut *s.borrow_mut()));
        let _ = catch_unwind(AssertUnwindSafe(move || drop(old)));
        OUT.with(|o| o.borrow_mut().clear());
        (lines, leak_note)
    }).unwrap();
    println!("=== {}", name);
    match t.join() {
        Ok((lines, note)) => {
            for l in lines {
                println!("{}", l);
            }
            println!("# {}", note);
        }
        Err(_) => println!("THREAD-PANIC"),
    }
}

#[cfg(feature = "stdrc")]
fn ring_at_scale(_n: usize, _stack_kb: usize, _noop_self: bool, _stale_spares: bool) {}

#[cfg(not(feature = "stdrc"))]
fn ring_at_scale(n: usize, stack_kb: usize, noop_self: bool, stale_spares: bool) {
    // C15 confirmation at scale: build a ring of n adopted objects and collect it on a small stack
    static DESTROYED: AtomicUsize = AtomicUsize::new(0);
    struct R {
        next: RefCell<Option<Rc<R>>>,
    }
    impl Drop for R {
        fn drop(&mut self) {
            DESTROYED.fetch_add(1, Ordering::Relaxed);
        }
    }
    let t = std::thread::Builder::new().stack_size(stack_kb * 1024).spawn(move || {
        // Built back to front so that every object has exactly one strong handle (held by its predecessor):
        // no handle of an adopted object is dropped during construction (every such drop would trace the graph).
        let tail = Rc::new(R { next: RefCell::new(None) });
        if noop_self {
            unsafe { Rc::adopt_unchecked(&tail, &tail) };
        }
        let tail_w = Rc::downgrade(&tail);
        let mut next = tail;
        for _ in 1..n {
            let node = Rc::new(R { next: RefCell::new(None) });
            if noop_self {
                // upstream's "no effect" same-handle self adoption on every member
                unsafe { Rc::adopt_unchecked(&node, &node) };
            }
            unsafe { Rc::adopt_unchecked(&node, &next) };
            if stale_spares {
                // a second recorded handle to the successor that is given up again without unadopt (documented as safe)
                let spare = Rc::clone(&next);
                unsafe { Rc::adopt_unchecked(&node, &spare) };
                drop(spare);
            }
            *node.next.borrow_mut() = Some(next);
            next = node;
        }
        let head = next;
        {
            let t = tail_w.upgrade().unwrap();
            let h = Rc::clone(&head);
            unsafe { Rc::adopt_unchecked(&t, &h) };
            *t.next.borrow_mut() = Some(h);
            // dropping `t` traces the ring once (the ring is still owned by `head`)
        }
        drop(tail_w);
        let t0 = std::time::Instant::now();
        drop(head);
        t0.elapsed().as_millis()
    }).unwrap();
    match t.join() {
        Ok(ms) => println!("ring ok n={} destroyed={} ms={}", n, DESTROYED.load(Ordering::Relaxed), ms),
        Err(_) => println!("ring panicked n={}", n),
    }
}

#[cfg(feature = "stdrc")]
fn hub_at_scale(_n: usize, _stack_kb: usize) {}

#[cfg(not(feature = "stdrc"))]
fn hub_at_scale(n: usize, stack_kb: usize) {
    // one object adopts n-1 others, each of which adopts it back: the trace's work list gets long
    static DESTROYED: AtomicUsize = AtomicUsize::new(0);
    struct Hn {
        out: RefCell<Vec<Rc<Hn>>>,
    }
    impl Drop for Hn {
        fn drop(&mut self) {
            DESTROYED.fetch_add(1, Ordering::Relaxed);
        }
    }
    let t = std::thread::Builder::new().stack_size(stack_kb * 1024).spawn(move || {
        let hub = Rc::new(Hn { out: RefCell::new(Vec::new()) });
        let hub_w = Rc::downgrade(&hub);
        let mut keep = Some(hub);
        for _ in 1..n {
            let h = hub_w.upgrade().unwrap();
            let spoke = Rc::new(Hn { out: RefCell::new(Vec::new()) });
            // spoke -> hub (the upgraded handle is moved into the spoke: no drop, no trace)
            unsafe { Rc::adopt_unchecked(&spoke, &h) };
            spoke.out.borrow_mut().push(h);
            // hub -> spoke (moved as well)
            let hr = keep.as_ref().unwrap();
            unsafe { Rc::adopt_unchecked(hr, &spoke) };
            hr.out.borrow_mut().push(spoke);
        }
        drop(hub_w);
        let t0 = std::time::Instant::now();
        drop(keep.take());
        t0.elapsed().as_millis()
    }).unwrap();
    match t.join() {
        Ok(ms) => println!("hub ok n={} destroyed={} ms={}", n, DESTROYED.load(Ordering::Relaxed), ms),
        Err(_) => println!("hub panicked n={}", n),
    }
}

fn main() {
    let args: Vec<String> = std::env::args().collect();
    if args.len() >= 4 && args[1] == "--hub" {
        hub_at_scale(args[2].parse().unwrap(), args[3].parse().unwrap());
        return;
    }
    if args.len() >= 4 && args[1] == "--ring" {
        ring_at_scale(args[2].parse().unwrap(), args[3].parse().unwrap(), false, false);
        return;
    }
    if args.len() >= 4 && args[1] == "--ring-noop" {
        ring_at_scale(args[2].parse().unwrap(), args[3].parse().unwrap(), true, false);
        return;
    }
    if args.len() >= 4 && args[1] == "--ring-stale" {
        ring_at_scale(args[2].parse().unwrap(), args[3].parse().unwrap(), false, true);
        return;
    }
    let path = &args[1];
    let seed: u64 = args.get(2).map(|s| s.parse().unwrap()).unwrap_or(0);
    if args.get(3).map(|s| s.as_str()) == Some("eager") {
        // warm up stdout's buffer before any script is measured
        println!("# eager");
        EAGER.store(1, Ordering::Relaxed);
    }
    std::panic::set_hook(Box::new(|_| {}));
    let text = std::fs::read_to_string(path).expect("read script");
    let all: Vec<String> = text.lines().map(|s| s.to_string()).collect();
    let mut it = all.into_iter().peekable();
    let mut name = "script".to_string();
    loop {
        match it.peek() {
            None => break,
            Some(l) if l.starts_with("===") => {
                name = l[3..].trim().to_string();
                it.next();
            }
            _ => {}
        }
        let ops = parse(&mut it);
        run_script(name.clone(), ops, seed);
        use std::io::Write;
        std::io::stdout().flush().unwrap();
    }
}
