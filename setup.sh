#!/bin/bash
# offline setup: verify the tools the checks need and pre-build the native runner
set -e
cd "$(dirname "$0")"
export CARGO_NET_OFFLINE=true
python3-vt -c "import z3; print('z3', z3.get_version_string())"
cargo +nightly --version
mkdir -p out evidence
( cd native && RUSTUP_TOOLCHAIN=nightly RUSTFLAGS='--cfg cactusref_verif' CARGO_TARGET_DIR=../out/native-target cargo build --offline --quiet )
echo setup ok
