#!/usr/bin/env python3
"""Hand-made one-line mutants of the crate (the session's own sanity set; the independent ones are under seeded/).

For each mutant: scratch worktree of /repo HEAD, textual replacement, `cargo test` (a mutant that the existing suite
already kills is reported as such and skipped), then the listed checks with VERIF_REPO pointing at the worktree.
usage: mutants.py [name-substring]
"""
import os
import subprocess
import sys
import tempfile
import shutil

M = [
    # name, file, old, new, checks
    ('orphan-test-ge', 'src/cycle.rs', '.any(|(item, &cycle_owned_refs)| item.strong() > cycle_owned_refs);\n        if has_external_owners {',
     '.any(|(item, &cycle_owned_refs)| item.strong() >= cycle_owned_refs);\n        if has_external_owners {', ['C03']),
    ('backward-counts-as-owned', 'src/cycle.rs', 'cycle_owned_refs.entry(link.as_forward()).or_default();', 'cycle_owned_refs.entry(link.as_forward()).or_insert(strong);', ['C01', 'C03']),
    ('unadopt-forward-only', 'src/adopt.rs', '        let mut links = unsafe { other.inner().links().borrow_mut() };\n        links.remove(Link::backward(this.ptr), 1);',
     '        let _ = other;', ['C08', 'C14']),
    ('insert-saturates-at-one', 'src/link.rs', '*self.registry.entry(other).or_insert(0) += 1;', '*self.registry.entry(other).or_insert(0) = 1;', ['C08', 'C03']),
    ('try-unwrap-no-unlink', 'src/rc.rs', '                crate::drop::unlink(&this);\n', '', ['C12']),
    ('make-mut-steal-keeps-table', 'src/rc.rs', '                crate::drop::unlink(this);\n                let rcbox = this.ptr.as_ptr();\n                let links = mem::replace(&mut (*rcbox).links, MaybeUninit::uninit());\n                drop(links.assume_init());\n',
     '                crate::drop::unlink(this);\n', ['C12', 'C04']),
    ('get-mut-ignores-weak', 'src/rc.rs', 'Rc::weak_count(this) == 0 && Rc::strong_count(this) == 1', 'Rc::strong_count(this) == 1', ['C07', 'C12']),
    ('inc-weak-no-abort', 'src/rc.rs', '        if weak == 0 || weak == usize::MAX {\n            abort();\n        }\n        self.weak_ref().set(weak + 1);',
     '        self.weak_ref().set(weak.wrapping_add(1));', ['C05']),
    ('drop-unreachable-dealloc-le1', 'src/drop.rs', '    // remove the implicit "strong weak" pointer now that we\'ve destroyed the\n    // contents.\n    (*rcbox).dec_weak();\n\n    if (*rcbox).weak() == 0 {\n        // SAFETY: `T` is `Sized`, which means `Layout::for_value_raw` is always\n        // safe to call.\n        let layout = Layout::for_value_raw(this.ptr.as_ptr());',
     '    // remove the implicit "strong weak" pointer now that we\'ve destroyed the\n    // contents.\n    (*rcbox).dec_weak();\n\n    if (*rcbox).weak() <= 1 {\n        // SAFETY: `T` is `Sized`, which means `Layout::for_value_raw` is always\n        // safe to call.\n        let layout = Layout::for_value_raw(this.ptr.as_ptr());', ['C05', 'C02']),
    ('with-adoptions-no-clear', 'src/drop.rs', '    // Bust the links for this since it is now unreachable and set to be\n    // deallocated.\n    links.borrow_mut().clear();\n', '', ['C08', 'C02']),
    ('dec-strong-count-forgets', 'src/rc.rs', '        drop(Rc::from_raw(ptr));', '        mem::forget(Rc::from_raw(ptr));', ['C07', 'C06']),
    ('drop-cycle-no-uninit-mark', 'src/drop.rs', '            // `MaybeUninit` fields uninhabited.\n            (*rcbox).make_uninit();\n\n            // Move `T` out of the `RcBox`. Dropping an\n            // uninitialized',
     '            // `MaybeUninit` fields uninhabited.\n\n            // Move `T` out of the `RcBox`. Dropping an\n            // uninitialized', ['C16', 'C02', 'C05']),
    ('upgrade-no-sentinel-check', 'src/rc.rs', '            inner.inc_strong();\n            Some(Rc::from_inner(self.ptr))', '            inner.strong_ref().set(inner.strong() + 1);\n            Some(Rc::from_inner(self.ptr))', ['C05', 'C16']),
    ('weak-count-rc-off-by-one', 'src/rc.rs', '        this.inner().weak() - 1\n', '        this.inner().weak().saturating_sub(2) + 1 - (this.inner().weak() == 1) as usize\n', ['C06', 'C07']),
    ('loopback-unadopt-noop', 'src/adopt.rs', '            let mut links = unsafe { this.inner().links().borrow_mut() };\n            links.remove(Link::loopback(other.ptr), 1);\n            return;', '            return;', ['C14', 'C08']),
    ('drop-dispatch-dead-first', 'src/drop.rs', '            if self.inner().is_dead() {\n                drop_unreachable_with_adoptions(self);\n                return;\n            }\n            if let Some(cycle) = Self::orphaned_cycle(self) {',
     '            if let Some(cycle) = Self::orphaned_cycle(self) {\n                drop_cycle(cycle);\n                return;\n            }\n            if self.inner().is_dead() {\n                drop_unreachable_with_adoptions(self);\n                return;\n            }\n            if let Some(cycle) = None::<HashMap<Link<T>, usize>> {', ['C02', 'C03']),
]


def sh(cmd, cwd=None, env=None, timeout=3600):
    return subprocess.run(cmd, cwd=cwd, env=env, shell=isinstance(cmd, str), capture_output=True, text=True, timeout=timeout)


def main():
    only = sys.argv[1] if len(sys.argv) > 1 else ''
    base = tempfile.mkdtemp(prefix='mutants-')
    here = os.path.dirname(os.path.abspath(__file__))
    for (name, f, old, new, checks) in M:
        if only and only not in name:
            continue
        w = os.path.join(base, 'r')
        sh(['git', '-C', '/repo', 'worktree', 'remove', '--force', w])
        sh(['git', '-C', '/repo', 'worktree', 'add', '-q', '--detach', w, 'HEAD'])
        p = os.path.join(w, f)
        s = open(p).read()
        if old not in s:
            print('%-32s SOURCE-TEXT-NOT-FOUND' % name, flush=True)
            continue
        open(p, 'w').write(s.replace(old, new, 1))
        t = sh('cargo test --workspace --no-fail-fast --offline 2>&1 | grep -E "^test result|error(\\[|:)" ', cwd=w, timeout=1800)
        failed = sum(int(l.split('; ')[1].split(' ')[0]) for l in t.stdout.split('\n') if l.startswith('test result')) if 'test result' in t.stdout else -1
        if failed != 0 or 'error' in t.stdout:
            print('%-32s KILLED-BY-EXISTING-SUITE (%s)' % (name, 'compile error' if failed < 0 or 'error[' in t.stdout else '%d failing tests' % failed), flush=True)
            continue
        res = []
        for c in checks:
            env = dict(os.environ, VERIF_REPO=w)
            r = sh([os.path.join(here, 'check'), c], env=env, timeout=3600)
            line = [l for l in r.stdout.split('\n') if l.startswith(('VIOLATION', 'INCONCLUSIVE', 'OK'))]
            res.append('%s:%s' % (c, line[0].split(' ')[0] if line else 'NO-VERDICT'))
        print('%-32s survives suite | %s' % (name, '  '.join(res)), flush=True)
    sh(['git', '-C', '/repo', 'worktree', 'remove', '--force', os.path.join(base, 'r')])
    sh(['git', '-C', '/repo', 'worktree', 'prune'])
    shutil.rmtree(base, ignore_errors=True)


if __name__ == '__main__':
    main()
