#!/bin/bash
# usage: seedtest.sh <seed-id> <prop> [<prop>...]   -- applies a seeded change to /repo, runs the checks, restores /repo
id=$1; shift
cd /verif
git -C /repo diff --quiet || { echo "/repo has uncommitted changes"; exit 3; }
git -C /repo apply /verif/seeded/$id/patch.diff || { echo "patch does not apply"; exit 3; }
for p in "$@"; do
  echo "--- seed $id : check $p ${VERIF_TIER:-quick}"
  ./check $p 2>&1 | grep -E 'VIOLATION|KNOWN-FINDING|INCONCLUSIVE|^OK|counterexample|ENGINE-ERROR|MISMATCH' | cut -c1-400
  echo "exit=$?"
done
git -C /repo checkout -- . ; git -C /repo status --short
