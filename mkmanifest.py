#!/usr/bin/env python3
"""regenerates MANIFEST.json from the table below"""
import json, sys
sys.path.insert(0, 'mirsym')
ids = [json.loads(l)['id'] for l in open('properties.jsonl')]
TECH = 'bounded symbolic execution of the crate\'s MIR (own executor, z3 decides branch feasibility and every oracle query over symbolic 64-bit counters; shapes/layouts forked exhaustively within stated bounds; MIR of the release-like profile, and of the debug-assertions profile for C16 and samples of C02 C03 C05 C06 C10 C11 C12); counterexamples replayed against the real build'
NOTE = 'Trusted base: rustc\'s MIR dump of /repo\'s working tree (opt-level 0, overflow checks on), the MIR executor (mirsym), summaries of core/alloc/hashbrown/log callees (listed per run in evidence), the layout model for hash iteration order, and the ghost ledger in mirsym/driver.py. Translator validation against the native build runs on every check. Bounds per tier are in evidence.coverage.bounds; sizes beyond them are outside the claim.'
CLAIMED = {
 'C01': 'every shape/history within the bounds: no destructor runs and no block is released for an object reachable from a held handle; query pc AND reachable(e) AND destroyed decided unsat by z3 on every path',
 'C02': 'monitors of the MIR executor (use-after-free, read of moved-out value/table, double free, destructor twice) never fire on any path of the shape universe, Weak handles included',
 'C03': 'after every drop, for the recorded-adoption closure S of the dropped object: z3 shows pc AND orphaned(S) implies every member destroyed; every object without a strong handle is destroyed in the same call',
 'C06': 'after every operation the strong/weak counters of every live object equal the ledger\'s handle counts for all 2^64 values of the symbolic extras (z3), ptr_eq agrees with identity; no strong handle the program holds points at an object whose value was destroyed',
 'C04': 'histories that end with every handle dropped: z3-decided paths all end with no RcBox block, link table, Vec or map of the model heap still allocated; with Weak handles outstanding only the bare block remains (w_j symbolic through the weak-drop lemma)',
 'C05': 'Weak::upgrade / strong_count / weak_count observed after every operation and from inside every destructor (Weak to self, peers, outsiders) agree with the ledger on every path; a handle returned by upgrade keeps its object alive while held; the block outlives every Weak',
 'C10': 'every member destructor position x one re-entrant API action on a bystander object/group (clone, drop incl. last handle and nested collection, adopt, unadopt, downgrade, upgrade of a Weak to a dying peer): no internal panic, no monitor event, and the C01-C06 oracles hold when the outer call returns',
 'C11': 'fault enumeration over which member destructor panics, following the unwind edges of the MIR: the panic reaches the caller (no abort), no destructor runs twice, nothing released twice, members of the interrupted group keep reporting dead through Weak, held objects stay intact',
 'C12': 'try_unwrap / make_mut (3 branches) / get_mut / raw round trips / increment-decrement_strong_count on every object of adoption graphs, then the remaining handles dropped: no table keeps naming a given-up block, no monitor event, no leaked table',
 'C13': 'histories where a recorded handle is taken out of its owner without unadopt (kept or dropped): no reachable object destroyed, no monitor event; the by-design violation is a listed finding keyed by cause, any other mechanism is reported',
 'C16': 'unit: Rc::clone over all 2^64 counter values aborts exactly for 0, MAX-1, MAX and otherwise adds one (z3); scenario: every member destructor of every group shape clones each handle it holds - every path through a clone of a dead handle ends in abort, dropping one changes nothing',
 'C07': 'differential: every program of <=2 calls plus seeded programs of 3 (4) calls out of 20 shared-API calls (incl. comparisons, hashing, Display/Debug/Pointer, raw release) from 8 adoption-free base states runs in the MIR executor and in a reference model of std::rc written from the std documentation; z3 decides equality of every returned value and of the destructor sequence under each path condition; disagreements are replayed against the real std::rc::Rc',
 'C09': 'product check: the same script under several layouts (rank orders, and every per-table order on small shapes); for every pair of paths whose conditions are jointly satisfiable the per-operation destroyed sets and observed counts must be equal (z3); includes histories with a panicking destructor',
 'C14': 'for objects whose bookkeeping is empty at the time of the call (never adopted / fully unadopted / stored inside adopted ones): the number of trace calls and allocation events inside clone/drop is 0 on every path, for all values of the symbolic handle counts; a vacuity witness with a recorded adoption must be seen to trace',
 'C15': 'bounded: for rings, cliques, chords and self adoptions of N=1..4 (6) the nesting depth of Rc::drop / interpreter frames does not grow with N and each trace expands every object at most twice; beyond that size a native run (ring of 200 000 objects on a 128 KiB stack, time ratio N vs 2N) is a confirmation, not a solver verdict',
 'C08': 'after every operation the link tables of every live object equal, entry by entry, the graph implied by the adopt/unadopt calls; no zero entry; no entry naming a destroyed object',
}
m = json.load(open('MANIFEST.json')) if False else {}
m = {"version": 1,
     "setup_cmd": "./setup.sh",
     "hooks": {"guard": "cactusref_verif", "enable": "RUSTFLAGS='--cfg cactusref_verif' (set by mirsym/runcheck.py for the MIR dump and the native runner build)",
               "baseline_off_cmd": "cd /repo && cargo test --workspace --no-fail-fast --offline",
               "source_commits": ["065d122"], "add_only": True},
     "engines": [{"name": "mirsym", "path": "mirsym/", "serves_properties": sorted(CLAIMED),
                  "kind_free_text": "symbolic executor for rustc MIR text with z3 (python), native replay runner in native/"}],
     "checks": [], "not_applicable": [],
     "notes": "Exit codes of ./check: 0 held (KNOWN-FINDING lines for listed findings), 1 VIOLATION (replayed against the real build), 2 inconclusive (encoder limit, translator-validation mismatch, unreproduced counterexample, budget)."}
for i in ids:
    if i in CLAIMED:
        m['checks'].append({"property_id": i, "quick_cmd": "./check %s --tier quick" % i, "thorough_cmd": "./check %s --tier thorough" % i,
                            "evidence_file": "evidence/%s.json" % i, "replay_cmd_template": "./check %s --replay {path}" % i, "engine": "mirsym",
                            "level_claimed": {"category": "model_checking", "text": CLAIMED[i], "design_ref": "DESIGN.md §4 (%s)" % i},
                            "level_note": NOTE, "technique": TECH})
    else:
        m['not_applicable'].append({"property_id": i, "reason": "check not built yet (framework under construction); see DESIGN.md"})
json.dump(m, open('MANIFEST.json', 'w'), indent=1)
print(len(m['checks']), 'checks')
